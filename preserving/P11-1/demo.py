#!/usr/bin/env python3
# Demonstration for C11 (Avalon-MM port keeps memory semantics) - focus: SINGLE accesses.
#
# Self-contained: a legal Avalon-MM master, a native-port memory model with random stalls on the
# command / write-data / read-data channels, and a byte-accurate reference model. Nothing here looks
# inside the bridge: only the Avalon pins and the final content of the memory behind the native port
# are checked, so it has to pass on any correct implementation whatever its latencies are.

import sys, os, random
sys.path.insert(0, "/repo")

from migen import *
from migen.sim import run_simulation, passive

from litex.soc.interconnect import avalon

import litedram
assert litedram.__file__.startswith("/repo/"), litedram.__file__
from litedram.common import LiteDRAMNativePort
from litedram.frontend.avalon import LiteDRAMAvalonMM2Native

FOCUS = "single"   # which kind of traffic dominates in this demo

# DUT ----------------------------------------------------------------------------------------------

class DUT(Module):
    def __init__(self, avl_dw, port_dw, base_address):
        self.avl  = avalon.AvalonMMInterface(adr_width=30, data_width=avl_dw)
        self.port = LiteDRAMNativePort("both", address_width=30, data_width=port_dw)
        self.submodules.bridge = LiteDRAMAvalonMM2Native(self.avl, self.port, base_address=base_address)

# Native port memory model ---------------------------------------------------------------------------

class NativeMemory:
    """In-order model of the controller side of a native port. Commands are accepted (with stalls)
    into a bounded queue and executed in order: a write takes its data beat (wdata.ready is only
    raised for the write at the head of the queue, as the controller does), a read samples the memory
    when it reaches the head and its data is returned later (with stalls), in order."""
    def __init__(self, port, seed, p_cmd, p_wdata, p_rdata, depth=4):
        self.port  = port
        self.prng  = random.Random(seed)
        self.p     = (p_cmd, p_wdata, p_rdata)
        self.depth = depth
        self.bytes = {}       # byte address -> value
        self.nbytes = port.data_width//8

    @passive
    def handler(self):
        port, prng = self.port, self.prng
        p_cmd, p_wdata, p_rdata = self.p
        queue   = []    # accepted, not executed commands (we, addr)
        rqueue  = []    # sampled read data waiting to be returned
        showing = False
        while True:
            # What happened in the current cycle.
            if (yield port.cmd.valid) and (yield port.cmd.ready):
                queue.append(((yield port.cmd.we), (yield port.cmd.addr)))
            if (yield port.wdata.valid) and (yield port.wdata.ready):
                we, addr = queue.pop(0)
                assert we
                data, mask = (yield port.wdata.data), (yield port.wdata.we)
                for i in range(self.nbytes):
                    if (mask >> i) & 1:
                        self.bytes[addr*self.nbytes + i] = (data >> (8*i)) & 0xff
            if (yield port.rdata.valid) and (yield port.rdata.ready):
                rqueue.pop(0)
                showing = False
            # Reads at the head of the queue are executed straight away.
            while queue and not queue[0][0]:
                _, addr = queue.pop(0)
                rqueue.append(sum(self.bytes.get(addr*self.nbytes + i, 0) << (8*i) for i in range(self.nbytes)))
            # What is driven in the next cycle.
            yield port.cmd.ready.eq(int(len(queue) < self.depth and prng.random() < p_cmd))
            yield port.wdata.ready.eq(int(bool(queue) and queue[0][0] and prng.random() < p_wdata))
            if not showing and rqueue and prng.random() < p_rdata:
                showing = True
            yield port.rdata.valid.eq(int(showing))
            yield port.rdata.data.eq(rqueue[0] if showing else prng.getrandbits(port.data_width))
            yield

# Traffic + reference --------------------------------------------------------------------------------

def make_ops(prng, avl_dw, base_word, span, n_ops, focus):
    """Returns (ops, reference bytes, expected read data). Addresses are Avalon word addresses."""
    nb   = avl_dw//8
    ref  = {}
    ops  = []
    exp  = []
    def rd(addr, n):
        ops.append(("r", addr, n))
        for k in range(n):
            exp.append(sum(ref.get((addr + k)*nb + i, 0) << (8*i) for i in range(nb)))
    def wr(addr, n, full_be):
        beats = []
        for k in range(n):
            data = prng.getrandbits(avl_dw)
            be   = (2**nb - 1) if (full_be or prng.random() < 0.4) else prng.getrandbits(nb)
            gap  = prng.choice([0, 0, 0, 1, 2, 5]) if k else 0
            beats.append((data, be, gap))
            for i in range(nb):
                if (be >> i) & 1:
                    ref[(addr + k)*nb + i] = (data >> (8*i)) & 0xff
        ops.append(("w", addr, beats))
    for _ in range(n_ops):
        kind = prng.random()
        if focus == "single":
            n = 1 if prng.random() < 0.75 else prng.randrange(2, 17)
        elif focus == "wburst":
            n = prng.randrange(2, 17) if (kind < 0.6 and prng.random() < 0.85) else prng.choice([1, 1, 2, 3, 16])
        else:
            n = prng.randrange(2, 17) if (kind >= 0.5 and prng.random() < 0.85) else prng.choice([1, 1, 2, 5, 16])
        addr = base_word + prng.randrange(span - n + 1)
        if kind < (0.6 if focus == "wburst" else 0.5):
            wr(addr, n, full_be=False)
        else:
            rd(addr, n)
    # Read everything back at the end: singles and maximal bursts.
    a = base_word
    while a < base_word + span:
        n = min(prng.choice([1, 16, 7]), base_word + span - a)
        rd(a, n)
        a += n
    return ops, ref, exp

def master(dut, ops, prng, rx, n_expected, wait_reads, limit=200000):
    avl = dut.avl
    cycles = [0]
    def tick():
        cycles[0] += 1
        if cycles[0] > limit:
            raise AssertionError("timeout: the bridge stopped making progress")
        yield
    def junk():
        # Address / burstcount are only meaningful on the first beat of a burst: drive noise afterwards.
        yield avl.address.eq(prng.getrandbits(len(avl.address)))
        yield avl.burstcount.eq(prng.getrandbits(8))
    for op in ops:
        for _ in range(prng.choice([0, 0, 0, 1, 3])):   # idle between transfers
            yield from tick()
        if op[0] == "w":
            _, addr, beats = op
            for k, (data, be, gap) in enumerate(beats):
                if gap:
                    yield avl.write.eq(0)
                    yield avl.writedata.eq(prng.getrandbits(len(avl.writedata)))
                    for _ in range(gap):
                        yield from tick()
                if k == 0:
                    yield avl.address.eq(addr)
                    yield avl.burstcount.eq(len(beats))
                else:
                    yield from junk()
                yield avl.write.eq(1)
                yield avl.writedata.eq(data)
                yield avl.byteenable.eq(be)
                yield from tick()
                while (yield avl.waitrequest):
                    yield from tick()
            yield avl.write.eq(0)
            yield from junk()
        else:
            _, addr, n = op
            yield avl.address.eq(addr)
            yield avl.burstcount.eq(n)
            yield avl.byteenable.eq(2**len(avl.byteenable) - 1)
            yield avl.read.eq(1)
            yield from tick()
            while (yield avl.waitrequest):
                yield from tick()
            yield avl.read.eq(0)
            yield from junk()
            if wait_reads:
                target = rx["issued"] + n
                rx["issued"] = target
                while len(rx["data"]) < target:
                    yield from tick()
            else:
                rx["issued"] += n
    while len(rx["data"]) < n_expected:
        yield from tick()
    for _ in range(60):   # nothing more may come back
        yield from tick()

@passive
def monitor(dut, rx):
    while True:
        if (yield dut.avl.readdatavalid):
            rx["data"].append((yield dut.avl.readdata))
        yield

def run_case(name, avl_dw, port_dw, base_address, seed, stalls, n_ops, wait_reads, focus=FOCUS):
    prng = random.Random(seed)
    dut  = DUT(avl_dw, port_dw, base_address)
    mem  = NativeMemory(dut.port, seed + 1, *stalls)
    base_word = base_address//(avl_dw//8)
    ops, ref, exp = make_ops(prng, avl_dw, base_word, span=40, n_ops=n_ops, focus=focus)
    rx = {"data": [], "issued": 0}
    run_simulation(dut, [master(dut, ops, prng, rx, len(exp), wait_reads), monitor(dut, rx), mem.handler()])
    # Reads: exactly n beats per read, in order, data of consecutive addresses.
    assert len(rx["data"]) == len(exp), "%s: %d readdatavalid beats, %d expected" % (name, len(rx["data"]), len(exp))
    for i, (got, want) in enumerate(zip(rx["data"], exp)):
        assert got == want, "%s: read beat %d returned 0x%x, expected 0x%x" % (name, i, got, want)
    # Writes: exactly the addressed bytes under their byte enables.
    want = {a - base_address: v for a, v in ref.items()}
    got  = {a: v for a, v in mem.bytes.items()}
    for a in set(want) | set(got):
        assert got.get(a, None) == want.get(a, None), \
            "%s: memory byte 0x%x is %r, expected %r" % (name, a, got.get(a), want.get(a))
    print("  ok  %-34s ops=%3d read beats=%4d bytes written=%4d" % (name, len(ops), len(exp), len(want)))

CASES = [
    # name                          avl  port  base        seed  (p_cmd, p_wdata, p_rdata) n_ops wait_reads
    ("32->32 no stalls",             32,  32, 0x00000000,   11, (1.0, 1.0, 1.0),           60, True),
    ("32->32 stalls",                32,  32, 0x00000000,   12, (0.5, 0.4, 0.4),           60, False),
    ("32->32 base 0x10000000",       32,  32, 0x10000000,   13, (0.7, 0.7, 0.5),           50, False),
    ("64->32 down, base",            64,  32, 0x10000000,   14, (0.6, 0.5, 0.6),           50, False),
    ("32->8 down",                   32,   8, 0x00000000,   15, (0.8, 0.6, 0.5),           40, True),
    ("32->64 up",                    32,  64, 0x00000000,   16, (0.6, 0.6, 0.5),           50, False),
    ("8->32 up, base",                8,  32, 0x00001000,   17, (0.5, 0.5, 0.7),           50, False),
    ("32->128 up slow memory",       32, 128, 0x00000000,   18, (0.3, 0.3, 0.3),           40, True),
]

if __name__ == "__main__":
    print("demo (%s focus), litedram from %s" % (FOCUS, os.path.dirname(litedram.__file__)))
    for case in CASES:
        run_case(*case)
    print("PASS")
