#!/venv/bin/python
# Demo 2 (C12, DMA writer and reader, public pins only):
#  - writer: every (address, data) pair offered on sink is stored exactly once, in order, with the
#    data paired to its own address and all byte enables set, for native ports (memory model that
#    honours wdata.valid, and a controller-like model that pulses wdata.ready a fixed time after
#    the command and samples the bus whatever valid says) and AXI ports, FIFO depths 1..16,
#    buffered/unbuffered, producer stalls, command and data back-pressure.
#  - reader: one word per address, in order, end-of-stream mark on the matching word, reads
#    outstanding <= fifo_depth, no returned word lost.
# Buses are only looked at when their valid is set (their value is a don't care otherwise).
#
# Stimulus in the "sys" domain; read-only monitor on a phase shifted clock ("mon") that sees the
# settled values of each sys cycle, i.e. what the next sys clock edge acts upon.

import sys
sys.path.insert(0, "/repo")

import random

from migen import *

from litedram.common import LiteDRAMNativePort
from litedram.frontend.axi import LiteDRAMAXIPort
from litedram.frontend.dma import LiteDRAMDMAReader, LiteDRAMDMAWriter

MAX_CYCLES = 30000

def make_port(kind):
    if kind == "axi":
        return LiteDRAMAXIPort(data_width=32, address_width=32, id_width=1)
    return LiteDRAMNativePort("both", address_width=32, data_width=32)

def simulate(dut, env):
    run_simulation(dut, {"sys": [env.driver()], "mon": [env.monitor()]},
        clocks={"sys": 10, "mon": (10, 5)})

# Writer -------------------------------------------------------------------------------------------

class WriterEnv:
    def __init__(self, dut, kind, pattern, seed, stall_style, latency=3):
        self.dut, self.kind, self.pattern = dut, kind, pattern
        self.prng        = random.Random(seed)
        self.stall_style = stall_style
        self.latency     = latency
        self.idx         = 0
        self.offering    = False
        self.cycle       = 0
        self.accepted    = []  # (address, data) accepted on sink.
        self.cmds        = []  # Addresses accepted by the port.
        self.datas       = []  # (data, we) taken by the port.
        self.pulses      = []  # Controller-like model: cycles in which wdata.ready is pulsed.
        self.errors      = []
        self.stall_left  = 0
        self.done        = False
        self.tail        = 0

    def data_ready(self):
        p = self.prng
        if self.stall_style == "fast":
            return 1
        if self.stall_style == "random":
            return int(p.random() < 0.4)
        if self.stall_left:
            self.stall_left -= 1
            return 0
        if p.random() < 0.08:
            self.stall_left = p.randrange(40, 100)
            return 0
        return 1

    def driver(self):
        dma, port = self.dut.dma, self.dut.port
        cmd, wdata = (port.aw, port.w) if self.kind == "axi" else (port.cmd, port.wdata)
        p = self.prng
        while not self.done:
            if not self.offering and self.idx < len(self.pattern) and p.random() < 0.7:
                self.offering = True
            if self.offering and self.idx < len(self.pattern):
                yield dma.sink.valid.eq(1)
                yield dma.sink.address.eq(self.pattern[self.idx][0])
                yield dma.sink.data.eq(self.pattern[self.idx][1])
            else:
                yield dma.sink.valid.eq(0)
                yield dma.sink.address.eq(p.getrandbits(16))  # Don't care when not valid.
                yield dma.sink.data.eq(p.getrandbits(32))
            yield cmd.ready.eq(int(p.random() < 0.6))
            if self.kind == "controller":
                yield wdata.ready.eq(int(self.cycle in self.pulses))
            elif self.kind == "native":
                # Data is only requested for commands that have been accepted.
                pending = len(self.cmds) - len(self.datas)
                yield wdata.ready.eq(self.data_ready() if pending > 0 else 0)
            else:
                yield wdata.ready.eq(self.data_ready())
            yield
            self.cycle += 1
            if self.cycle > MAX_CYCLES:
                self.errors.append("timeout")
                self.done = True

    def monitor(self):
        dma, port = self.dut.dma, self.dut.port
        cmd, wdata = (port.aw, port.w) if self.kind == "axi" else (port.cmd, port.wdata)
        we = wdata.strb if self.kind == "axi" else wdata.we
        while not self.done:
            if (yield dma.sink.valid) and (yield dma.sink.ready):
                self.accepted.append(((yield dma.sink.address), (yield dma.sink.data)))
                self.idx     += 1
                self.offering = False
            if (yield cmd.valid) and (yield cmd.ready):
                if self.kind != "axi" and not (yield cmd.we):
                    self.errors.append("read command from the writer")
                self.cmds.append((yield cmd.addr))
                self.pulses.append(self.cycle + self.latency)
            if (yield wdata.ready):
                if (yield wdata.valid):
                    self.datas.append(((yield wdata.data), (yield we)))
                elif self.kind == "controller":
                    # The controller samples the bus whatever valid says.
                    self.errors.append("cycle %d: no data when the controller takes it" % self.cycle)
                    self.datas.append(((yield wdata.data), (yield we)))
            if self.kind != "axi" and len(self.datas) > len(self.cmds):
                self.errors.append("data taken without command")
            # Run a little longer after the last word to catch spurious extra writes.
            if len(self.datas) >= len(self.pattern) and len(self.cmds) >= len(self.pattern):
                self.tail += 1
                if self.tail > 40:
                    self.done = True
            yield


def run_writer(kind, fifo_depth, fifo_buffered, stall_style, n, seed):
    prng    = random.Random(seed)
    pattern = [(prng.getrandbits(16), prng.getrandbits(32)) for _ in range(n)]
    # Some duplicate addresses (each must still be written once per occurrence).
    for i in range(5, n, 7):
        pattern[i] = (pattern[i - 3][0], pattern[i][1])

    class DUT(Module):
        def __init__(self):
            self.port = make_port(kind)
            self.submodules.dma = LiteDRAMDMAWriter(self.port,
                fifo_depth=fifo_depth, fifo_buffered=fifo_buffered)

    dut = DUT()
    env = WriterEnv(dut, kind, pattern, seed + 1, stall_style)
    simulate(dut, env)
    errors = list(env.errors[:3])
    if env.accepted != pattern:
        errors.append("accepted pairs differ from offered ones")
    stored = [(a, d, we) for a, (d, we) in zip(env.cmds, env.datas)]
    if len(env.cmds) != n or len(env.datas) != n:
        errors.append("%d commands / %d data words for %d pairs" % (len(env.cmds), len(env.datas), n))
    if stored != [(a, d, 0xf) for a, d in pattern]:
        errors.append("stored (address, data, we) sequence differs from the offered pairs")
    name = "writer %-10s depth=%-2d buffered=%d %s" % (kind, fifo_depth, fifo_buffered, stall_style)
    print("%-50s cycles %6d  %s" % (name, env.cycle, "ok" if not errors else "FAIL " + "; ".join(errors)))
    return not errors

# Reader -------------------------------------------------------------------------------------------

def mem_word(addr):
    return (addr*0x9e3779b1 + 0x1234567) & 0xffffffff

class ReaderEnv:
    def __init__(self, dut, kind, addrs, lasts, fifo_depth, seed, stall_style):
        self.dut, self.kind, self.addrs, self.lasts = dut, kind, addrs, lasts
        self.fifo_depth  = fifo_depth
        self.prng        = random.Random(seed)
        self.stall_style = stall_style
        self.idx         = 0
        self.offering    = False
        self.cycle       = 0
        self.inflight    = []
        self.presenting  = None
        self.issued      = []
        self.received    = []
        self.errors      = []
        self.stall_left  = 0
        self.done        = False

    def consumer_ready(self):
        p = self.prng
        if self.stall_style == "fast":
            return 1
        if self.stall_left:
            self.stall_left -= 1
            return 0
        if p.random() < 0.08:
            self.stall_left = p.randrange(40, 120)
            return 0
        return 1

    def driver(self):
        dma, port = self.dut.dma, self.dut.port
        cmd, rdata = (port.ar, port.r) if self.kind == "axi" else (port.cmd, port.rdata)
        p = self.prng
        while not self.done:
            if not self.offering and self.idx < len(self.addrs) and p.random() < 0.7:
                self.offering = True
            if self.offering and self.idx < len(self.addrs):
                yield dma.sink.valid.eq(1)
                yield dma.sink.address.eq(self.addrs[self.idx])
                yield dma.sink.last.eq(self.lasts[self.idx])
            else:
                yield dma.sink.valid.eq(0)
                yield dma.sink.address.eq(p.getrandbits(16))
                yield dma.sink.last.eq(p.getrandbits(1))
            yield cmd.ready.eq(int(p.random() < 0.6))
            if self.kind == "native":
                self.presenting = None
            if self.presenting is None and self.inflight and self.inflight[0][1] <= self.cycle:
                self.presenting = self.inflight.pop(0)[0]
            if self.presenting is not None:
                yield rdata.valid.eq(1)
                yield rdata.data.eq(mem_word(self.presenting))
            else:
                yield rdata.valid.eq(0)
                yield rdata.data.eq(p.getrandbits(32))
            yield dma.source.ready.eq(self.consumer_ready())
            yield
            self.cycle += 1
            if self.cycle > MAX_CYCLES:
                self.errors.append("timeout")
                self.done = True

    def monitor(self):
        dma, port = self.dut.dma, self.dut.port
        cmd, rdata = (port.ar, port.r) if self.kind == "axi" else (port.cmd, port.rdata)
        while not self.done:
            if (yield dma.sink.valid) and (yield dma.sink.ready):
                self.idx     += 1
                self.offering = False
            if (yield cmd.valid) and (yield cmd.ready):
                if self.kind == "native" and (yield cmd.we):
                    self.errors.append("write command from the reader")
                self.issued.append((yield cmd.addr))
                latency  = self.prng.choice([1, 1, 2, 3, 5, 9, 20])
                earliest = max(self.cycle + latency, self.inflight[-1][1] if self.inflight else 0)
                self.inflight.append([self.issued[-1], earliest])
            if (yield rdata.valid):
                if (yield rdata.ready):
                    if self.kind == "axi":
                        self.presenting = None
                elif self.kind == "native":
                    self.errors.append("cycle %d: returned word lost" % self.cycle)
            if (yield dma.source.valid) and (yield dma.source.ready):
                self.received.append(((yield dma.source.data), (yield dma.source.last)))
            if len(self.issued) - len(self.received) > self.fifo_depth:
                self.errors.append("cycle %d: more than fifo_depth reads outstanding" % self.cycle)
            if len(self.received) == len(self.addrs):
                self.done = True
            yield


def run_reader(kind, fifo_depth, fifo_buffered, stall_style, n, seed):
    prng  = random.Random(seed)
    addrs = [prng.getrandbits(16) for _ in range(n)]
    lasts = [int(prng.random() < 0.2) for _ in range(n)]

    class DUT(Module):
        def __init__(self):
            self.port = make_port(kind)
            self.submodules.dma = LiteDRAMDMAReader(self.port,
                fifo_depth=fifo_depth, fifo_buffered=fifo_buffered)

    dut = DUT()
    env = ReaderEnv(dut, kind, addrs, lasts, fifo_depth, seed + 1, stall_style)
    simulate(dut, env)
    errors = list(env.errors[:3])
    if env.issued != addrs:
        errors.append("issued reads differ from the addresses")
    if env.received != [(mem_word(a), l) for a, l in zip(addrs, lasts)]:
        errors.append("output stream differs")
    name = "reader %-10s depth=%-2d buffered=%d %s" % (kind, fifo_depth, fifo_buffered, stall_style)
    print("%-50s cycles %6d  %s" % (name, env.cycle, "ok" if not errors else "FAIL " + "; ".join(errors)))
    return not errors


def main():
    ok   = True
    seed = 200
    for kind in ["native", "controller", "axi"]:
        for fifo_depth, fifo_buffered in [(1, False), (2, False), (3, True), (16, False), (16, True)]:
            for stall_style in (["fast"] if kind == "controller" else ["fast", "random", "long"]):
                seed += 1
                ok &= run_writer(kind, fifo_depth, fifo_buffered, stall_style, n=80, seed=seed)
    for kind in ["native", "axi"]:
        for fifo_depth, fifo_buffered in [(1, False), (3, False), (4, True), (16, False)]:
            for stall_style in ["fast", "long"]:
                seed += 1
                ok &= run_reader(kind, fifo_depth, fifo_buffered, stall_style, n=80, seed=seed)
    print("PASS" if ok else "FAIL")
    sys.exit(0 if ok else 1)


if __name__ == "__main__":
    main()
