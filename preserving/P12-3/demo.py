#!/usr/bin/env python3
# C14 demo: BIST generator writes its sequence, BIST checker reports exactly the words that differ.
# Self-contained; passes on clean HEAD and with patch3 applied.
import sys
sys.path.insert(0, "/repo")

import random

from migen import *
from litex.gen.sim import *

import litedram
assert litedram.__file__.startswith("/repo"), litedram.__file__

from litedram.common import LiteDRAMNativeWritePort, LiteDRAMNativeReadPort
from litedram.frontend.axi import LiteDRAMAXIPort
from litedram.frontend.bist import _LiteDRAMBISTGenerator, _LiteDRAMBISTChecker


def replicate31(v, width):
    r = 0
    for i in range((width + 30)//31):
        r |= v << (31*i)
    return r & (2**width - 1)


def scenario(name, kind, data_width, base, end, length, random_data, random_addr, n_corrupt, seed,
             cmd_busy=20, wdata_busy=20, lat_max=6, corrupt_unwritten=False):
    """base/end/length in bytes (as programmed). Returns True when everything matches."""
    prng   = random.Random(seed)
    ashift = (data_width//8).bit_length() - 1
    n      = length >> ashift

    class DUT(Module):
        def __init__(self):
            if kind == "native":
                self.wport = LiteDRAMNativeWritePort(address_width=24, data_width=data_width)
                self.rport = LiteDRAMNativeReadPort(address_width=24,  data_width=data_width)
                self.wcmd, self.wdata = self.wport.cmd, self.wport.wdata
                self.rcmd, self.rdata = self.rport.cmd, self.rport.rdata
            else:
                self.wport = LiteDRAMAXIPort(data_width=data_width, address_width=24, id_width=1)
                self.rport = LiteDRAMAXIPort(data_width=data_width, address_width=24, id_width=1)
                self.wcmd, self.wdata = self.wport.aw, self.wport.w
                self.rcmd, self.rdata = self.rport.ar, self.rport.r
            self.submodules.generator = _LiteDRAMBISTGenerator(self.wport)
            self.submodules.checker   = _LiteDRAMBISTChecker(self.rport)

    dut      = DUT()
    mem      = {}
    problems = []
    writes   = []   # (word address, data) in the order stored
    reads    = []   # word addresses in the order read
    result   = {}
    state    = dict(cycle=0)

    def word_addr(a):
        if kind == "axi":
            if a & (2**ashift - 1):
                problems.append("unaligned AXI address 0x%x" % a)
            return a >> ashift
        return a

    @passive
    def memory():
        wcmds, returns = [], []
        while True:
            now = state["cycle"]
            if (yield dut.wcmd.valid) and (yield dut.wcmd.ready):
                wcmds.append(word_addr((yield dut.wcmd.addr)))
            if (yield dut.wdata.valid) and (yield dut.wdata.ready):
                if not wcmds:
                    problems.append("write data without command")
                else:
                    a, d = wcmds.pop(0), (yield dut.wdata.data)
                    mem[a] = d
                    writes.append((a, d))
            if (yield dut.rcmd.valid) and (yield dut.rcmd.ready):
                a = word_addr((yield dut.rcmd.addr))
                reads.append(a)
                due = now + 1 + prng.randrange(lat_max + 1)
                if returns:
                    due = max(due, returns[-1][0])
                returns.append((due, mem.get(a, 0)))
            if (yield dut.rdata.valid) and not (yield dut.rdata.ready):
                problems.append("cycle %d: read data not accepted (overrun)" % now)
            yield dut.wcmd.ready.eq(int(prng.randrange(100) >= cmd_busy))
            yield dut.rcmd.ready.eq(int(prng.randrange(100) >= cmd_busy))
            yield dut.wdata.ready.eq(int(prng.randrange(100) >= wdata_busy))
            if returns and returns[0][0] <= now:
                yield dut.rdata.valid.eq(1)
                yield dut.rdata.data.eq(returns.pop(0)[1])
            else:
                yield dut.rdata.valid.eq(0)
            state["cycle"] += 1
            yield

    def run(m):
        yield m.reset.eq(1)
        yield
        yield m.reset.eq(0)
        yield
        yield m.base.eq(base)
        yield m.end.eq(end)
        yield m.length.eq(length)
        yield m.random_data.eq(random_data)
        yield m.random_addr.eq(random_addr)
        yield
        yield m.start.eq(1)
        yield
        yield m.start.eq(0)
        yield
        t0 = state["cycle"]
        while not (yield m.done):
            if state["cycle"] - t0 > 40000:
                problems.append("timeout")
                return
            yield

    def main():
        # Generate.
        yield from run(dut.generator)
        if len(writes) != n:
            problems.append("generator done with %d of %d words stored" % (len(writes), n))
        # Corrupt.
        written = sorted(set(a for a, _ in writes))
        victims = prng.sample(written, min(n_corrupt, len(written)))
        for a in victims:
            mem[a] ^= 1 << prng.randrange(data_width)
        if corrupt_unwritten:
            mem[(base >> ashift) + (end - base) + 3] = 0x55  # never read: must not count
        # Expected: positions whose stored word differs from the word generated for them.
        result["expected"] = sum(1 for a, d in writes if mem[a] != d)
        # Check.
        yield from run(dut.checker)
        result["errors"] = (yield dut.checker.errors)
        for _ in range(20):
            yield
        if (yield dut.checker.errors) != result["errors"] or not (yield dut.checker.done):
            problems.append("errors/done not stable after done")

    run_simulation(dut, [main(), memory()])

    # Sequence sanity.
    base_w = base >> ashift
    span   = end - base  # mask is applied as programmed (HEAD behaviour), see bist.py
    for i, (a, d) in enumerate(writes):
        if not (0 <= a - base_w < span):
            problems.append("position %d written outside the range (0x%x)" % (i, a))
            break
        if not random_addr and a != base_w + (i & (span - 1)):
            problems.append("position %d: sequential address wrong" % i)
            break
        if not random_data and d != replicate31(i, data_width):
            problems.append("position %d: sequential data wrong" % i)
            break
    if reads != [a for a, _ in writes]:
        problems.append("checker address sequence differs from generator's")
    if len(writes) == len(set(a for a, _ in writes)) and result.get("expected") != min(n_corrupt, n):
        problems.append("no repeated address: expected count should equal corrupted words")
    if result.get("errors") != result.get("expected"):
        problems.append("errors=%s expected=%s" % (result.get("errors"), result.get("expected")))
    ok = not problems
    print("  %-44s %s  words=%d errors=%s expected=%s %s" % (
        name, "ok" if ok else "FAIL", n, result.get("errors"), result.get("expected"),
        problems[:3] if problems else ""))
    return ok


def main():
    ok = True
    s  = scenario
    #      name                                kind     dw  base   end          length rd ra  k seed
    ok &= s("native 32b sequential, clean",     "native", 32, 0x40,  0x40+0x100,  0x100, 0, 0,  0, 1)
    ok &= s("native 32b sequential, 5 corrupted","native", 32, 0x40,  0x40+0x100,  0x100, 0, 0,  5, 2)
    ok &= s("native 32b random data, 1 corrupted","native", 32, 0x80, 0x80+0x200,  0x100, 1, 0,  1, 3,
            corrupt_unwritten=True)
    ok &= s("native 8b  sequential, all corrupted","native", 8, 0x10,  0x10+0x20,   0x20,  0, 0, 32, 4)
    ok &= s("native 64b random data+addr, 7 corrupted","native", 64, 0x100, 0x100+0x40, 0x200, 1, 1, 7, 5)
    ok &= s("native 32b random addr (repeats), clean","native", 32, 0x0, 0x10,     0x100, 0, 1,  0, 6)
    ok &= s("native 32b wrap over range, 3 corrupted","native", 32, 0x20, 0x20+0x8, 0x60,  1, 0,  3, 7)
    ok &= s("native 128b single word, corrupted","native", 128, 0x100, 0x100+0x10, 0x10,  1, 0,  1, 8)
    ok &= s("native 32b slow memory, 9 corrupted","native", 32, 0x40,  0x40+0x100,  0x100, 1, 0,  9, 9,
            cmd_busy=70, wdata_busy=80, lat_max=40)
    ok &= s("native 32b fast memory, 2 corrupted","native", 32, 0x40,  0x40+0x100,  0x100, 0, 0,  2, 10,
            cmd_busy=0, wdata_busy=0, lat_max=0)
    ok &= s("axi 32b random data, 4 corrupted",  "axi",    32, 0x400, 0x400+0x400, 0x100, 1, 0,  4, 11)
    ok &= s("axi 64b random data+addr, 6 corrupted","axi", 64, 0x800, 0x800+0x20,  0x100, 1, 1,  6, 12)
    print("PASS" if ok else "FAIL")
    sys.exit(0 if ok else 1)


if __name__ == "__main__":
    main()
