#!/usr/bin/env python3
# Demo 1: LPDDR4 PHY - every DFI command is decoded back from the CS/CA *pads* with an independent
# JEDEC (JESD209-4) command decoder that ignores "V" (valid, either level) bits, and is compared
# with the DFI command (operation, bank, row/column, AP/AB flag, MR address/operand, slot).
import sys
sys.path.insert(0, "/repo")

import random
from functools import partial

from migen import *

# Environment shims (this sandbox: Python 3.12 + a litex release without CSR.wr_stb) ----------------
import dis, inspect
from litex.soc.interconnect import csr as _csr

def _get_obj_var_name(override=None, default=None):
    # migen's tracer does not know the Python >= 3.11 bytecode: find `x = CSR()` / `self.x = CSR()` with dis
    if override:
        return override
    frame = inspect.currentframe().f_back
    ourclass = frame.f_locals["self"].__class__
    while "self" in frame.f_locals and isinstance(frame.f_locals["self"], ourclass):
        frame = frame.f_back
    for ins in dis.get_instructions(frame.f_code):
        if ins.offset > frame.f_lasti:
            if ins.opname in ["STORE_ATTR", "STORE_FAST", "STORE_NAME", "STORE_DEREF"]:
                name = ins.argval
                return name[1:] if len(name) > 2 and name[0] == "_" and name[1] != "_" else name
            if ins.opname not in ["LOAD_FAST", "LOAD_ATTR", "LOAD_GLOBAL", "LOAD_DEREF", "COPY", "CACHE"]:
                break
    return default

if sys.version_info >= (3, 11):
    _csr.get_obj_var_name = _get_obj_var_name
if not hasattr(_csr.CSR(name="probe"), "wr_stb"):  # CSR write strobe name used by this LiteDRAM version
    _csr_init = _csr.CSR.__init__
    def _csr_init_wr_stb(self, *args, **kwargs):
        _csr_init(self, *args, **kwargs)
        self.wr_stb = self.re
    _csr.CSR.__init__ = _csr_init_wr_stb

import litedram
assert litedram.__file__.startswith("/repo"), litedram.__file__

from litedram.phy.lpddr4.simphy import LPDDR4SimPHY, DoubleRateLPDDR4SimPHY
import test.phy_common

run_simulation = partial(test.phy_common.run_simulation, clocks={
    "sys":          (64, 31),
    "sys2x":        (32, 15),
    "sys8x":        ( 8,  3),
    "sys8x_ddr":    ( 4,  1),
    "sys8x_90":     ( 8,  1),
    "sys8x_90_ddr": ( 4,  3),
})

NPHASES = 8
SPAN = 4  # slots taken by one DFI command

# DFI side ----------------------------------------------------------------------------------------

CMDS = {  # name: (cas_n, ras_n, we_n)
    "ACT": (1, 0, 1), "RD": (0, 1, 1), "WR": (0, 1, 0), "PRE": (1, 0, 0),
    "REF": (0, 0, 1), "ZQC": (1, 1, 0), "MRS": (0, 0, 0), "NOP": (1, 1, 1),
}

def dfi_cmd(name, bank=0, address=0, cs_n=0):
    cas_n, ras_n, we_n = CMDS[name]
    return dict(cs_n=cs_n, cas_n=cas_n, ras_n=ras_n, we_n=we_n, bank=bank, address=address)

def expected_command(d, masked_write):
    """Reference meaning of a DFI phase: None if it is not a command, else (kind, fields)"""
    if d["cs_n"] != 0:
        return None
    key = (d["cas_n"], d["ras_n"], d["we_n"])
    name = {v: k for k, v in CMDS.items()}[key]
    a, b = d["address"], d["bank"]
    bit = lambda v, n: (v >> n) & 1
    col = a & 0b1111111100  # C9..C2
    if name == "ACT": return ("ACT", dict(bank=b & 7, row=a & 0x1ffff))
    if name == "RD":  return ("RD",  dict(bank=b & 7, col=col, ap=bit(a, 10)))
    if name == "WR":  return ("MWR" if masked_write else "WR", dict(bank=b & 7, col=col, ap=bit(a, 10)))
    if name == "PRE": return ("PRE", dict(bank=b & 7, ab=bit(a, 10)))
    if name == "REF": return ("REF", dict(bank=b & 7, ab=bit(a, 10)))
    if name == "MRS": return ("MRW", dict(ma=b & 0x3f, op=a & 0xff))
    if name == "ZQC":
        if b == 0: return ("MPC", dict(op=a & 0x7f))
        if b == 1: return ("MRR", dict(ma=a & 0x3f))
        return None
    return None

def expected_stream(sequence, masked_write, extended):
    """[(global_phase, kind, fields)] of the commands that must appear on the pads"""
    cmds = {}
    for cyc, phases in enumerate(sequence):
        for p, d in phases.items():
            e = expected_command(d, masked_write)
            if e is not None:
                cmds[cyc*NPHASES + p] = e
    emitted = {}
    for g in sorted(cmds):
        blockers = emitted if extended else cmds
        if not any((g - k) in blockers for k in range(1, SPAN)):
            emitted[g] = cmds[g]
    return [(g, *emitted[g]) for g in sorted(emitted)], len(cmds) - len(emitted)

# Pads side ---------------------------------------------------------------------------------------

def decode_small(hi, lo):
    """Decode one LPDDR4 2-tick command: hi/lo are CA[5:0] at the CS=H tick and the following tick"""
    b = lambda v, n: (v >> n) & 1
    h = tuple(b(hi, i) for i in range(5))  # CA0..CA4 on the first edge
    ba = lo & 7
    if h[:2] == (1, 0):  # ACT-1: H L R12 R13 R14 R15 | BA0 BA1 BA2 R16 R10 R11
        return ("ACT-1", dict(bank=ba, row_hi=(b(hi, 2) << 12) | (b(hi, 3) << 13) | (b(hi, 4) << 14) | (b(hi, 5) << 15)
                                              | (b(lo, 3) << 16) | (b(lo, 4) << 10) | (b(lo, 5) << 11)))
    if h[:2] == (1, 1):  # ACT-2: H H R6 R7 R8 R9 | R0..R5
        return ("ACT-2", dict(row_lo=(lo & 0x3f) | (((hi >> 2) & 0xf) << 6)))
    table = {
        (0, 1, 1, 0, 0): "MRW-1", (0, 1, 1, 0, 1): "MRW-2", (0, 1, 1, 1, 0): "MRR-1",
        (0, 0, 0, 1, 0): "REF",   (0, 0, 1, 0, 0): "WR-1",  (0, 0, 1, 1, 0): "MWR-1",
        (0, 1, 0, 0, 0): "RD-1",  (0, 1, 0, 0, 1): "CAS-2", (0, 0, 0, 0, 1): "PRE",
        (0, 0, 0, 0, 0): "MPC",
    }
    name = table[h]  # KeyError = reserved encoding on the pads
    if name == "MRW-1": return (name, dict(op7=b(hi, 5), ma=lo))
    if name == "MRW-2": return (name, dict(op6=b(hi, 5), op_lo=lo))
    if name == "MRR-1": return (name, dict(ma=lo))                       # CA5 (first edge) is V
    if name in ["REF", "PRE"]: return (name, dict(ab=b(hi, 5), bank=ba))  # CA3..5 (second edge) are V
    if name in ["WR-1", "MWR-1", "RD-1"]:                                # CA3 (second edge) is V
        return (name, dict(bl=b(hi, 5), bank=ba, c9=b(lo, 4), ap=b(lo, 5)))
    if name == "CAS-2": return (name, dict(c8_2=(b(hi, 5) << 6) | lo))
    if name == "MPC":   return (name, dict(op=(b(hi, 5) << 6) | lo))
    raise ValueError(name)

def decode_pads(cs, ca):
    """cs: list of 0/1 per tick, ca: list of 6-bit ints per tick -> [(start_tick, kind, fields)]"""
    small = []
    i = 0
    while i < len(cs) - 1:
        if cs[i]:
            assert cs[i+1] == 0, f"CS high on 2 consecutive ticks at {i}"
            small.append((i, *decode_small(ca[i], ca[i+1])))
            i += 2
        else:
            i += 1
    full = []
    it = iter(small)
    for t, name, f in it:
        if name in ["PRE", "REF", "MPC"]:  # single command is sent in the 2nd slot, after a DESELECT
            assert t >= 2 and cs[t-2] == 0 and cs[t-1] == 0
            full.append((t - 2, name, f))
            continue
        t2, name2, f2 = next(it)
        assert t2 == t + 2, f"second half of {name}@{t} not adjacent: {name2}@{t2}"
        if name == "ACT-1":
            assert name2 == "ACT-2", name2
            full.append((t, "ACT", dict(bank=f["bank"], row=f["row_hi"] | f2["row_lo"])))
        elif name == "MRW-1":
            assert name2 == "MRW-2", name2
            full.append((t, "MRW", dict(ma=f["ma"], op=(f["op7"] << 7) | (f2["op6"] << 6) | f2["op_lo"])))
        elif name == "MRR-1":
            assert name2 == "CAS-2", name2
            full.append((t, "MRR", dict(ma=f["ma"])))
        elif name in ["RD-1", "WR-1", "MWR-1"]:
            assert name2 == "CAS-2", name2
            assert f["bl"] == 0
            col = (f["c9"] << 9) | (f2["c8_2"] << 2)
            full.append((t, name[:-2], dict(bank=f["bank"], col=col, ap=f["ap"])))
        else:
            raise AssertionError(f"unexpected first command {name}@{t}")
    return full

# Simulation --------------------------------------------------------------------------------------

IDLE = dict(cs_n=1, cas_n=1, ras_n=1, we_n=1, bank=0, address=0)

def run(phy, sequence, masked_write=True, extended=False, expect_offset=None):
    cs, ca = [], []

    def driver(dfi):
        for phases in sequence + [{}] * 6:
            for p, phase in enumerate(dfi.phases):
                for sig, val in {**IDLE, **phases.get(p, {})}.items():
                    yield getattr(phase, sig).eq(val)
            yield

    def sampler(pads):
        for _ in range((len(sequence) + 6) * NPHASES):
            cs.append((yield pads.cs))
            ca.append((yield pads.ca))
            yield

    run_simulation(phy, {"sys": [driver(phy.dfi)], "sys8x_90": [sampler(phy.pads)]})

    expected, n_suppressed = expected_stream(sequence, masked_write, extended)
    decoded = decode_pads(cs, ca)
    assert len(decoded) == len(expected), (len(decoded), len(expected))
    offsets = {t - g for (t, _, _), (g, _, _) in zip(decoded, expected)}
    assert len(offsets) == 1, f"commands not at the slot of their DFI phase: {offsets}"
    offset = offsets.pop()
    if expect_offset is not None:
        assert offset == expect_offset, offset
    for (t, kind, f), (g, ekind, ef) in zip(decoded, expected):
        assert (kind, f) == (ekind, ef), f"DFI phase {g}: pads {kind} {f} != DFI {ekind} {ef}"
    # nothing but the decoded commands may raise CS
    assert sum(cs) == sum(1 if k in ["PRE", "REF", "MPC"] else 2 for _, k, _ in decoded)
    # informational only: levels seen on the "V" bits CA[5:3] of PRE/REF (legal either way)
    V_LEVELS.update((ca[t+3] >> 3) & 7 for t, k, _ in decoded if k in ["PRE", "REF"])
    return len(decoded), n_suppressed, offset

V_LEVELS = set()

def random_cmd(rng, kinds):
    name = rng.choice(kinds)
    if name == "ZQC":
        bank = rng.choice([0, 0, 1, 1, rng.randrange(2, 64)])
    elif name == "MRS":
        bank = rng.randrange(64)
    else:
        bank = rng.randrange(8)
    return dfi_cmd(name, bank=bank, address=rng.randrange(1 << 17), cs_n=rng.choice([0]*9 + [1]))

def all_types_all_phases(rng, names=("ACT", "RD", "WR", "PRE", "REF", "ZQC", "MRS")):
    """Every command type at every phase, isolated from each other"""
    seq = []
    for name in names:
        for p in range(NPHASES):
            d = random_cmd(rng, [name])
            d["cs_n"] = 0
            if name == "ZQC":
                d["bank"] = p % 2  # MPC / MRR
            seq += [{p: d}, {}] if p > NPHASES - SPAN else [{p: d}]
    return seq

def random_traffic(rng, ncycles, max_short_gaps=None):
    """Commands with all spacings (1..9 phases), including overlapping ones and non-commands

    `max_short_gaps` bounds the number of consecutive spacings shorter than a command (used with
    extended_overlaps_check=True, which only looks one controller cycle back and is not meant for
    longer chains of mutually overlapping commands).
    """
    kinds = ["ACT", "RD", "WR", "PRE", "REF", "ZQC", "MRS", "NOP"]
    seq = [dict() for _ in range(ncycles)]
    g, short = 0, 0
    while g < ncycles * NPHASES:
        seq[g // NPHASES][g % NPHASES] = random_cmd(rng, kinds)
        gap = rng.choice([1, 2, 3, 4, 4, 4, 5, 6, 7, 8, 9])
        if max_short_gaps is not None and short >= max_short_gaps:
            gap = max(gap, SPAN)
        short = short + 1 if gap < SPAN else 0
        g += gap
    return seq

if __name__ == "__main__":
    rng = random.Random(20)
    freq = 100e6

    n, s, off = run(LPDDR4SimPHY(sys_clk_freq=freq), all_types_all_phases(rng), expect_offset=16)
    print(f"all types/phases, masked:   {n} commands decoded, {s} suppressed, offset {off}")
    assert s == 0

    seq = all_types_all_phases(rng, names=["RD", "WR"])
    n, s, off = run(LPDDR4SimPHY(sys_clk_freq=freq, masked_write=False), seq, masked_write=False, expect_offset=16)
    print(f"RD/WR all phases, unmasked: {n} commands decoded, {s} suppressed, offset {off}")

    for extended in [False, True]:
        seq = random_traffic(rng, 40, max_short_gaps=2 if extended else None)
        phy = LPDDR4SimPHY(sys_clk_freq=freq, extended_overlaps_check=extended)
        n, s, off = run(phy, seq, extended=extended, expect_offset=16)
        print(f"random traffic, extended={extended!s:5}: {n} commands decoded, {s} suppressed, offset {off}")
        assert s > 0

    seq = random_traffic(rng, 24)
    phy = DoubleRateLPDDR4SimPHY(sys_clk_freq=freq, serdes_reset_cnt=-1)
    n, s, off = run(phy, seq, expect_offset=20)
    print(f"random traffic, double rate: {n} commands decoded, {s} suppressed, offset {off}")

    print("info: values seen on the V bits CA[5:3] of PRECHARGE/REFRESH:", sorted(V_LEVELS))
    print("PASS")
