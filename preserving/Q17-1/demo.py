#!/usr/bin/env python3
# demo1: C16 - cycle counts derived from datasheet values are never on the unsafe side.
#
# Independent re-derivation (exact rational arithmetic, datasheet numbers read from the class
# attributes, SPD bytes decoded here) of what every timing handed to the controller has to cover:
#   * minimum timings: N cycles, commands on the least favourable phases -> N*rate - (rate-1) DRAM
#     clocks apart; that distance must cover the nanosecond value and N*rate must span the clock count
#   * tREFI: N cycles must not be longer than the datasheet refresh interval
# Works on the unchanged code and with patch1 applied. Exits 0 and prints PASS.
import sys, os, csv, inspect, time
sys.path.insert(0, "/repo")
from fractions import Fraction as F

import litedram, litedram.modules as M
from litedram.modules import SDRAMModule
assert litedram.__file__.startswith("/repo/"), litedram.__file__

TOL_NS = F(1, 10**6)   # 1 femtosecond: floating point noise of the float based implementation

MIN_TIMINGS = ["tRP", "tRCD", "tWR", "tRFC", "tWTR", "tFAW", "tCCD", "tRRD", "tRAS", "tZQCS"]

def dec(x):            # datasheet numbers are decimal
    return F(repr(float(x)))

def norm(v, frm):      # -> (ck, ns) or None
    if v is None:
        return None
    if isinstance(v, dict):
        v = v[frm]
    if isinstance(v, tuple):
        ck, ns = v
    else:
        ck, ns = 0, v
    return (dec(ck or 0), dec(ns or 0))

def datasheet(cls, speedgrade, frm):
    tt = cls.technology_timings
    st = cls.speedgrade_timings["default" if speedgrade is None else speedgrade]
    d = {}
    for n in MIN_TIMINGS + ["tREFI"]:
        src = st if hasattr(st, n) else tt
        d[n] = norm(getattr(src, n), frm)
    if d["tRAS"] is not None:
        d["tRC"] = (d["tRP"][0] + d["tRAS"][0], d["tRP"][1] + d["tRAS"][1])
    else:
        d["tRC"] = None
    return d

errors = []
nchecks = 0

def check(tag, ts, ds, clk_freq, rate):
    global nchecks
    f    = F(clk_freq)
    tck  = F(10**9)/(f*rate)          # ns
    tclk = F(10**9)/f                 # ns
    for n in MIN_TIMINGS + ["tRC"]:
        got = getattr(ts, n)
        if ds[n] is None:
            continue
        ck, ns = ds[n]
        nchecks += 1
        if not isinstance(got, int) or got < 0:
            errors.append((tag, n, "not a cycle count", got)); continue
        worst = (got*rate - (rate - 1))*tck
        if worst < ns - TOL_NS:
            errors.append((tag, n, "ns not covered", got, float(worst), float(ns)))
        if got*rate < ck:
            errors.append((tag, n, "ck not spanned", got, float(ck)))
        # not absurdly pessimistic either (sanity of the demo itself): within 2 cycles of the bound
        need = max(-(-ck//rate), -(-(-(-ns//tck) + rate - 1)//rate))
        if got > need + 2:
            errors.append((tag, n, "implausibly large", got, int(need)))
    ck, ns = ds["tREFI"]
    got = ts.tREFI
    nchecks += 1
    if not isinstance(got, int) or got < 1:
        errors.append((tag, "tREFI", "not a positive cycle count", got))
    else:
        if got*tclk > ns + TOL_NS:
            errors.append((tag, "tREFI", "longer than datasheet", got, float(got*tclk), float(ns)))
        if (got + 2)*tclk < ns:
            errors.append((tag, "tREFI", "implausibly short", got))

def classes():
    for name, cls in sorted(vars(M).items()):
        if inspect.isclass(cls) and issubclass(cls, SDRAMModule) and \
           all(hasattr(cls, a) for a in ("memtype", "nbanks", "nrows", "ncols")):
            yield name, cls

FREQS = [k*1e6 for k in (10, 25, 33, 48, 50, 64, 75, 80, 100, 111, 125, 133, 150, 166, 175, 200, 225, 240,
                         250, 300, 333, 375, 400)]
FREQS += [1e9/7.5, 1e9/6, 625e6/3, 275e6/3, 83.333e6, 66.67e6]

t0 = time.time()
nmod = 0
for name, cls in classes():
    nmod += 1
    sgs  = [None] + [s for s in cls.speedgrade_timings if s != "default"]
    frms = [None, "1x", "2x", "4x"] if cls.memtype == "DDR4" else [None]
    for sg in sgs:
        for rate in (1, 2, 4):
            for frm in frms:
                ds = datasheet(cls, sg, frm or "1x")
                for f in FREQS:
                    m = cls(f, "1:{}".format(rate), speedgrade=sg, fine_refresh_mode=frm)
                    check((name, sg, rate, frm, f), m.timing_settings, ds, f, rate)
                    if cls.memtype == "DDR4":
                        assert m.timing_settings.fine_refresh_mode == (frm or "1x")

# SPD images ---------------------------------------------------------------------------------------
def load_spd(path):
    data = [0]*512
    with open(path) as fd:
        for row in csv.DictReader(fd):
            a = row["Byte Number"]
            if len(a.split("-")) == 1:
                data[int(a)] = int(row["Byte Value"], 16)
    return data

def s8(x):
    return x - 256 if x & 0x80 else x

def spd_datasheet(b, frm):
    if b[2] == 0x0b:   # DDR3
        mtb = F(b[10], b[11]); ftb = F(b[9] >> 4, b[9] & 15)/1000
        t = lambda m, f=0: m*mtb + s8(f)*ftb
        d = dict(
            tRP=(0, t(b[20], b[37])), tRCD=(0, t(b[18], b[36])), tWR=(0, t(b[17])),
            tRFC=(0, t(b[25] << 8 | b[24])), tFAW=(0, t((b[28] & 15) << 8 | b[29])),
            tRAS=(0, t((b[21] & 15) << 8 | b[22])), tWTR=(4, t(b[26])), tRRD=(4, t(b[19])),
            tCCD=(4, 0), tZQCS=(64, 80), tREFI=(0, F(64*10**6, 8192)))
    else:              # DDR4
        assert b[2] == 0x0c and b[17] & 15 == 0
        mtb = F(125, 1000); ftb = F(1, 1000)
        t = lambda m, f=0: m*mtb + s8(f)*ftb
        page = {0: 4, 1: 8, 2: 16, 3: 32}[b[12] & 7]*(2**(9 + (b[5] & 7)))//8
        d = dict(
            tRP=(0, t(b[26], b[121])), tRCD=(0, t(b[25], b[122])), tWR=(0, t((b[41] & 15) << 8 | b[42])),
            tRFC=(0, t(b[{"1x": 31, "2x": 33, "4x": 35}[frm]] << 8 | b[{"1x": 30, "2x": 32, "4x": 34}[frm]])),
            tFAW=({512: 16, 1024: 20, 2048: 28}[page], t((b[36] & 15) << 8 | b[37])),
            tRAS=(0, t((b[27] & 15) << 8 | b[28])), tWTR=(4, t((b[43] >> 4) << 8 | b[45])),
            tRRD=(4, t(b[39], b[118])), tCCD=(4, t(b[40], b[117])), tZQCS=(128, 80),
            tREFI=(0, F(64*10**6, 8192)/{"1x": 1, "2x": 2, "4x": 4}[frm]))
    d = {k: (F(v[0]), F(v[1])) for k, v in d.items()}
    d["tRC"] = (d["tRP"][0] + d["tRAS"][0], d["tRP"][1] + d["tRAS"][1])
    return d

spd_dir = "/repo/test/spd_data"
nspd = 0
for fn in sorted(os.listdir(spd_dir)):
    b = load_spd(os.path.join(spd_dir, fn))
    nspd += 1
    for frm in ([None, "1x", "2x", "4x"] if b[2] == 0x0c else [None]):
        ds = spd_datasheet(b, frm or "1x")
        for f in FREQS:
            m = SDRAMModule.from_spd_data(b, f, fine_refresh_mode=frm)
            assert m.rate == "1:4"
            # the decoded values must be the SPD contents (up to float noise) ...
            sgt = m.speedgrade_timings["default"]
            for n in ("tRP", "tRCD", "tWR", "tRAS"):
                assert abs(F(getattr(sgt, n)) - ds[n][1]) < TOL_NS, (fn, n)
            # ... and the cycle counts must cover them
            check((fn, frm, f), m.timing_settings, ds, f, 4)

for e in errors[:30]:
    print("VIOLATION", e)
print("modules: {}, SPD images: {}, checks: {}, violations: {}, {:.1f}s".format(
    nmod, nspd, nchecks, len(errors), time.time() - t0))
if errors:
    print("FAIL")
    sys.exit(1)
print("PASS")
