#!/usr/bin/env python3
# demo3: C17 for the LPDDR4 / LPDDR5 initialisation (plus DDR3 / DDR4 against the repository's
# reference headers as a cross-check of the harness):
#   - the mode registers *finally* programmed by the generated sequence decode (JEDEC tables) to the
#     burst length / read latency / write latency (and nWR) the PHY settings operate with,
#   - every mode register opcode fits its register, every address fits the MR address field,
#   - the C and the Python rendering describe the same sequence (same commands, same order, same
#     addresses, same delays), with and without electrical options.
# The mode-register writes are found by command + bank address, never by position or comment.
# Passes on the unchanged code and with patch3 applied.
import re, sys
sys.path.insert(0, "/repo")

import litedram
assert litedram.__file__.startswith("/repo/"), litedram.__file__
from litedram.common import PhySettings, GeomSettings
from litedram.init import get_sdram_phy_init_sequence, get_sdram_phy_c_header, get_sdram_phy_py_header, cmds
from litedram.modules import MT53E256M16D1, MT41K128M16, EDY4016A
from litedram.phy.lpddr5.basephy import FREQUENCY_RANGES

errors, checked = [], 0
def expect(cond, msg):
    global checked
    checked += 1
    if not cond:
        errors.append(msg)

# --- rendering parsers -----------------------------------------------------------------------------
def parse_c(text):
    defs = {k: int(v, 16) for k, v in re.findall(r"#define (DFII_\w+)\s+(0x[0-9a-fA-F]+)", text)}
    body = text.split("static inline void init_sequence(void)")[1]
    ev = lambda expr: eval(expr, {}, defs)
    seq, cur = [], None
    for line in body.splitlines():
        line = line.strip()
        m = re.match(r"/\* (.*) \*/$", line)
        if m:
            cur = {"comment": m.group(1), "delay": 0}; seq.append(cur); continue
        m = re.match(r"sdram_dfii_pi0_address_write\((.*)\);", line)
        if m: cur["a"] = int(m.group(1), 0); continue
        m = re.match(r"sdram_dfii_pi0_baddress_write\((.*)\);", line)
        if m: cur["ba"] = int(m.group(1), 0); continue
        m = re.match(r"(command_p0|sdram_dfii_control_write)\((.*)\);", line)
        if m: cur["kind"] = m.group(1); cur["cmd"] = ev(m.group(2)); continue
        m = re.match(r"cdelay\((\d+)\);", line)
        if m: cur["delay"] = int(m.group(1)); continue
    return [(e["comment"], e["a"], e["ba"], e["kind"], e["cmd"], e["delay"]) for e in seq]

def parse_py(text):
    ns = {}
    exec(text, ns)
    out = []
    for comment, a, ba, cmd, delay in ns["init_sequence"]:
        # control words and commands live in different CSRs: recover which from the symbolic text
        sym = re.search(r'\("%s", %d, %d, ([a-z0-9_|]+), %d\)' % (re.escape(comment), a, ba, delay), text).group(1)
        kind = "sdram_dfii_control_write" if sym.startswith("dfii_control") else "command_p0"
        out.append((comment, a, ba, kind, cmd, delay))
    return out

def final_mrs(seq):
    mrs = {}
    for comment, a, ba, cmd, delay in seq:
        if cmd == cmds["MODE_REGISTER"]:
            mrs[ba] = a
    return mrs

def check_renderings(tag, phy, timing, geom):
    seq, mr = get_sdram_phy_init_sequence(phy, timing)
    c  = parse_c(get_sdram_phy_c_header(phy, timing, geom))
    py = parse_py(get_sdram_phy_py_header(phy, timing))
    expect(c == py, f"{tag}: C and Python renderings differ")
    expect(len(c) == len(seq), f"{tag}: rendering has {len(c)} steps, sequence {len(seq)}")
    # both renderings are the sequence itself (compare with symbolic commands evaluated)
    expect([(x[0], x[1], x[2], x[5]) for x in c] == [(s[0], s[1], s[2], s[4]) for s in seq],
           f"{tag}: renderings do not follow the generated sequence")
    return seq, mr

# --- LPDDR4 ----------------------------------------------------------------------------------------
LP4_RL  = [6, 10, 14, 20, 24, 28, 32, 36]     # MR2 OP[2:0], DBI off
LP4_WL  = [4, 6, 8, 10, 12, 14, 16, 18]       # MR2 OP[5:3], set A
LP4_NWR = [6, 10, 16, 20, 24, 30, 34, 40]     # MR1 OP[6:4]

lp4 = MT53E256M16D1(clk_freq=50e6, rate="1:8")
for i, (cl, cwl) in enumerate(zip(LP4_RL, LP4_WL)):
    for extra in [{}, {"dq_odt": "RZQ/4", "ca_odt": "disable", "vref_dq": 25.2, "vref_ca_range": 0, "vref_ca": 20.0}]:
        phy = PhySettings(phytype="LPDDR4PHY", memtype="LPDDR4", databits=16, dfi_databits=32, nphases=8,
                          rdphase=3, wrphase=4, cl=cl, cwl=cwl, read_latency=10, write_latency=2,
                          cmd_latency=1, bitslips=16)
        for k, v in extra.items(): setattr(phy, k, v)
        tag = f"LPDDR4 cl={cl} cwl={cwl} {'opts' if extra else 'default'}"
        seq, mr = check_renderings(tag, phy, lp4.timing_settings, lp4.geom_settings)
        mrs = final_mrs(seq)
        expect(mrs == mr, f"{tag}: returned MR dict differs from what the sequence programs")
        expect(all(0 <= ma < 64 and 0 <= op < 256 for ma, op in mrs.items()), f"{tag}: MR field overflow")
        expect({1, 2, 3, 11, 12, 13, 14} <= set(mrs), f"{tag}: registers missing: {sorted(mrs)}")
        expect((mrs[1] & 0b11) == 0b00, f"{tag}: BL16 expected")
        expect(LP4_RL[mrs[2] & 7] == cl, f"{tag}: MR2 read latency {LP4_RL[mrs[2] & 7]}")
        expect(LP4_WL[(mrs[2] >> 3) & 7] == cwl and not (mrs[2] >> 6) & 1, f"{tag}: MR2 write latency")
        expect(LP4_NWR[(mrs[1] >> 4) & 7] == LP4_NWR[i], f"{tag}: nWR does not belong to the RL/WL range")
        expect(not (mrs[2] >> 7), f"{tag}: write leveling left enabled")
        expect((mrs[13] >> 6) == 0, f"{tag}: FSP-WR/FSP-OP must stay on set point 0")
        # every MR is written before the ZQ calibration, after CKE has been raised
        kinds = [("mr" if s[3] == cmds["MODE_REGISTER"] else "cke" if s[3] == cmds["CKE"] else
                  "zq" if s[0].startswith("ZQ") else "other") for s in seq]
        expect(kinds.index("cke") < kinds.index("mr") and
               max(i for i, k in enumerate(kinds) if k == "mr") < kinds.index("zq"),
               f"{tag}: mode registers not between CKE and ZQ calibration: {kinds}")
        expect(all(s[4] >= 2 for s in seq if s[3] == cmds["MODE_REGISTER"]), f"{tag}: tMRW/tMRD wait missing")

# --- LPDDR5 ----------------------------------------------------------------------------------------
for ratio, ranges in FREQUENCY_RANGES.items():
    for fr in ranges:
        f = fr.for_set(wl_set="A", rl_set=0)
        for extra in [{}, {"dq_odt": "RZQ/6", "soc_odt": "RZQ/3", "vref_dq": 40.5}]:
            phy = PhySettings(phytype="LPDDR5PHY", memtype="LPDDR5", databits=16, dfi_databits=32, nphases=1,
                              rdphase=0, wrphase=0, cl=f.rl, cwl=f.wl, read_latency=10, write_latency=2)
            phy.wck_ck_ratio = ratio
            for k, v in extra.items(): setattr(phy, k, v)
            tag = f"LPDDR5 {ratio}:1 rl={f.rl} wl={f.wl} {'opts' if extra else 'default'}"
            seq, mr = check_renderings(tag, phy, lp4.timing_settings, lp4.geom_settings)
            mrs = final_mrs(seq)
            expect(mrs == mr, f"{tag}: returned MR dict differs from what the sequence programs")
            expect(all(0 <= ma < 128 and 0 <= op < 256 for ma, op in mrs.items()), f"{tag}: MR field overflow")
            # MR1 OP[7:4] = WL code, MR2 OP[3:0] = RL code, MR2 OP[7:4] = nWR code, MR18 OP[7] = CKR
            expect(ranges[mrs[1] >> 4].wl[0] == f.wl, f"{tag}: MR1 write latency")
            expect(ranges[mrs[2] & 0xf].rl[0] == f.rl, f"{tag}: MR2 read latency")
            expect(ranges[mrs[2] >> 4].n_wr == f.n_wr, f"{tag}: MR2 nWR")
            expect((mrs[18] >> 7) == {2: 1, 4: 0}[ratio], f"{tag}: MR18 WCK:CK ratio")
            expect(not (mrs[3] >> 5) & 1, f"{tag}: WL set A expected")

# --- DDR3 / DDR4: same harness reproduces the reference headers of the repository -------------------
def reference(name):
    with open("/repo/test/reference/" + name) as fd:
        return fd.read()

ddr3 = MT41K128M16(clk_freq=125e6, rate="1:4")  # stand-in geometry; the timing that matters is tWTR
phy = PhySettings(phytype="K7DDRPHY", memtype="DDR3", databits=64, dfi_databits=128, nphases=4, rdphase=2, wrphase=3,
                  cl=7, cwl=6, read_latency=10, write_latency=1, cmd_latency=0, write_leveling=True,
                  read_leveling=True, delays=32, bitslips=8)
seq, mr = check_renderings("DDR3 kc705", phy, ddr3.timing_settings, ddr3.geom_settings)
ref = parse_py(reference("ddr3_init.py"))
expect([s[:3] + (s[4],) for s in seq] == [(r[0], r[1], r[2], r[5]) for r in ref], "DDR3: differs from test/reference/ddr3_init.py")
expect(parse_c(reference("ddr3_init.h")) == ref, "DDR3: reference .h and .py differ")

ddr4 = EDY4016A(clk_freq=125e6, rate="1:4")
phy = PhySettings(phytype="USDDRPHY", memtype="DDR4", databits=64, dfi_databits=128, nphases=4, rdphase=1, wrphase=2,
                  cl=9, cwl=9, read_latency=10, write_latency=1, cmd_latency=0, write_leveling=True,
                  read_leveling=True, delays=512, bitslips=8)
seq, mr = check_renderings("DDR4 kcu105", phy, ddr4.timing_settings, ddr4.geom_settings)
ref = parse_py(reference("ddr4_init.py"))
expect([s[:3] + (s[4],) for s in seq] == [(r[0], r[1], r[2], r[5]) for r in ref], "DDR4: differs from test/reference/ddr4_init.py")
expect(parse_c(reference("ddr4_init.h")) == ref, "DDR4: reference .h and .py differ")

print(f"demo3: {checked} checks")
if errors:
    for e in errors[:20]:
        print("FAIL", e)
    print(f"{len(errors)} errors")
    sys.exit(1)
print("PASS")
