#!/usr/bin/env python3
# Self-contained demonstration: full LiteDRAM controller + crossbar driven by native ports, with an
# independent DFI monitor written in plain Python that checks
#   C02  bank state machine, one command per phase, data strobes on the PHY phases, chip selects
#   C03  datasheet spacings measured in DRAM clocks (phase positions included)
#   C05  every offered command is accepted and completed within a configuration-only bound
# Exits 0 and prints PASS when every scenario is clean.
import sys, math, random, time
sys.path.insert(0, "/repo")

from migen import *
from litex.gen.sim import run_simulation

import litedram
assert litedram.__file__.startswith("/repo/"), litedram.__file__
from litedram.common import PhySettings, burst_lengths
from litedram import modules as M
from litedram.core.controller import LiteDRAMController, ControllerSettings
from litedram.core.crossbar import LiteDRAMCrossbar

DEMO = 2

# Configurations -----------------------------------------------------------------------------------

CONFIGS = {
    # name: (module class, rate, sys clk, phy kwargs)
    "ddr3_1to4": (M.MT41K64M16, "1:4", 100e6,
        dict(memtype="DDR3", databits=16, dfi_databits=32, nphases=4, rdphase=2, wrphase=3,
             cl=6, cwl=5, read_latency=8, write_latency=2)),
    "ddr3_1to4_alt": (M.MT41K64M16, "1:4", 125e6,
        dict(memtype="DDR3", databits=16, dfi_databits=32, nphases=4, rdphase=3, wrphase=1,
             cl=7, cwl=6, read_latency=7, write_latency=2)),
    "ddr2_1to2": (M.MT47H64M16, "1:2", 100e6,
        dict(memtype="DDR2", databits=16, dfi_databits=32, nphases=2, rdphase=0, wrphase=1,
             cl=4, cwl=3, read_latency=5, write_latency=1)),
    "sdr_1to1": (M.MT48LC16M16, "1:1", 100e6,
        dict(memtype="SDR", databits=16, dfi_databits=16, nphases=1, rdphase=0, wrphase=0,
             cl=2, cwl=None, read_latency=4, write_latency=0)),
}

class DUT(Module):
    def __init__(self, config, nranks=1, nports=2, nbanks=4, trefi=None, zqcs_period=None, **ctrl_kwargs):
        module_cls, rate, clk_freq, phy_kwargs = CONFIGS[config]
        # Fewer banks than the real part (simulation speed); the datasheet timings are the part's.
        module_cls = type(module_cls.__name__ + "_%dbanks" % nbanks, (module_cls,), dict(nbanks=nbanks))
        self.module   = module = module_cls(clk_freq, rate)
        self.clk_freq = clk_freq
        phy = PhySettings(phytype="demo", nranks=nranks, **phy_kwargs)
        if trefi is not None:
            module.timing_settings.tREFI = trefi  # refresh more often than required: legal
        if zqcs_period is not None and module.timing_settings.tZQCS is not None:
            ctrl_kwargs["refresh_zqcs_freq"] = clk_freq/zqcs_period
        self.submodules.controller = LiteDRAMController(phy, module.geom_settings,
            module.timing_settings, clk_freq, ControllerSettings(**ctrl_kwargs))
        self.submodules.crossbar = LiteDRAMCrossbar(self.controller.interface)
        self.ports = [self.crossbar.get_port() for _ in range(nports)]
        self.phy      = phy
        self.geom     = module.geom_settings
        self.settings = self.controller.settings
        if phy.memtype == "SDR":
            self.burst = phy.nphases
        else:
            self.burst = burst_lengths[phy.memtype]
        self.address_align = log2_int(self.burst)
        self.cba_shift     = self.geom.colbits - self.address_align
        self.nbm           = nranks*2**self.geom.bankbits

    def addr(self, bm, row, colw):
        bank_bits = log2_int(self.nbm)
        return (row << (self.cba_shift + bank_bits)) | (bm << self.cba_shift) | colw

    def split(self, addr):
        bank_bits = log2_int(self.nbm)
        colw = addr & (2**self.cba_shift - 1)
        bm   = (addr >> self.cba_shift) & (2**bank_bits - 1)
        row  = addr >> (self.cba_shift + bank_bits)
        return bm, row, colw

# Datasheet minimums in DRAM clocks ----------------------------------------------------------------

class Datasheet:
    def __init__(self, dut):
        m, nph = dut.module, dut.phy.nphases
        self.tck = tck = 1e9/(dut.clk_freq*nph)
        def ck(name):
            t = m.get(name)
            if t is None:
                return 0
            return max(t.ck, math.ceil(t.ns/tck - 1e-9))
        for name in ["tRP", "tRCD", "tWR", "tRFC", "tFAW", "tRAS", "tWTR", "tCCD", "tRRD", "tZQCS"]:
            setattr(self, name, ck(name))
        if m.get("tRAS") is not None:
            self.tRC = math.ceil((m.get("tRAS").ns + m.get("tRP").ns)/tck - 1e-9)
        else:
            self.tRC = 0
        cwl = dut.phy.cwl if dut.phy.memtype != "SDR" else 0
        burst_ck = dut.burst if dut.phy.memtype == "SDR" else dut.burst//2
        self.wr_end = cwl + burst_ck  # WRITE command -> end of the write burst

# DFI monitor --------------------------------------------------------------------------------------

class Monitor:
    def __init__(self, dut):
        self.dut, self.ds = dut, Datasheet(dut)
        self.errors   = []
        self.nranks   = dut.phy.nranks
        self.nbanks   = 2**dut.geom.bankbits
        self.expected = [[] for _ in range(dut.nbm)]  # per bank machine: accepted (we, row, col)
        self.open_row = {}                            # (rank, bank) -> row
        self.t = {}                                   # (kind, rank, bank) -> DRAM clock of the last one
        self.acts     = [[] for _ in range(self.nranks)]
        self.last_cas = [None]*self.nranks
        self.last_wr  = [None]*self.nranks
        self.busy_until = [(-1, "")]*self.nranks      # after REF / ZQCS
        self.stats = dict(act=0, pre=0, rd=0, wr=0, ref=0, zq=0, in_wtr=0, deselect=0, nop=0)
        self.states = {}

    def err(self, now, msg):
        if len(self.errors) < 20:
            self.errors.append("[ck %d] %s" % (now, msg))

    def need(self, now, key, minimum, what):
        last = self.t.get(key)
        if last is not None and now - last < minimum:
            self.err(now, "%s: %d < %d ck (%s)" % (what, now - last, minimum, key))

    def close(self, now, rank, bank, start):
        # Row is closed by a precharge that (effectively) starts at `start`.
        self.open_row.pop((rank, bank), None)
        self.t[("pre", rank, bank)] = max(start, self.t.get(("pre", rank, bank), -10**9))

    def command(self, now, phase, rank, ras, cas, we, bank, a, rden, wren, all_ranks):
        ds, key = self.ds, (rank, bank)
        busy, why = self.busy_until[rank]
        if now < busy:
            self.err(now, "command during %s (until %d)" % (why, busy))
        if ras and not cas and not we:  # ACT
            self.stats["act"] += 1
            if key in self.open_row:
                self.err(now, "ACT on open bank %s" % (key,))
            self.need(now, ("pre", rank, bank), ds.tRP, "tRP")
            self.need(now, ("act", rank, bank), ds.tRC, "tRC")
            acts = self.acts[rank]
            if acts and now - acts[-1] < ds.tRRD:
                self.err(now, "tRRD: %d < %d" % (now - acts[-1], ds.tRRD))
            if ds.tFAW and len(acts) >= 4 and now - acts[-4] < ds.tFAW:
                self.err(now, "tFAW: %d < %d" % (now - acts[-4], ds.tFAW))
            acts.append(now)
            self.open_row[key] = a
            self.t[("act", rank, bank)] = now
        elif ras and not cas and we:  # PRE
            self.stats["pre"] += 1
            banks = range(self.nbanks) if (a >> 10) & 1 else [bank]
            for b in banks:
                if (rank, b) in self.open_row or not ((a >> 10) & 1):
                    self.need(now, ("act", rank, b), ds.tRAS, "tRAS")
                    self.need(now, ("wr", rank, b), ds.wr_end + ds.tWR, "tWR")
                    self.close(now, rank, b, now)
        elif cas and not ras:  # RD / WR
            self.stats["wr" if we else "rd"] += 1
            if key not in self.open_row:
                self.err(now, "%s on closed bank %s" % ("WR" if we else "RD", key))
            bm = rank*self.nbanks + bank
            if not self.expected[bm]:
                self.err(now, "CAS on %s without a request" % (key,))
            else:
                e_we, e_row, e_col = self.expected[bm].pop(0)
                col = a & ~(1 << 10) if self.dut.geom.colbits <= 10 else None
                if e_we != we or (col is not None and e_col != col) or self.open_row.get(key) != e_row:
                    self.err(now, "CAS mismatch on %s: we=%d col=%s open row=%s, request we=%d row=%d col=%d" % (
                        key, we, col, self.open_row.get(key), e_we, e_row, e_col))
            self.need(now, ("act", rank, bank), ds.tRCD, "tRCD")
            if self.last_cas[rank] is not None and now - self.last_cas[rank] < ds.tCCD:
                self.err(now, "tCCD: %d < %d" % (now - self.last_cas[rank], ds.tCCD))
            if not we and self.last_wr[rank] is not None and now - self.last_wr[rank] < ds.wr_end + ds.tWTR:
                self.err(now, "tWTR: %d < %d" % (now - self.last_wr[rank], ds.wr_end + ds.tWTR))
            self.last_cas[rank] = now
            if we:
                self.last_wr[rank] = now
                self.t[("wr", rank, bank)] = now
                if not wren or phase != self.dut.phy.wrphase:
                    self.err(now, "WR on phase %d wrdata_en=%d" % (phase, wren))
            else:
                if not rden or phase != self.dut.phy.rdphase:
                    self.err(now, "RD on phase %d rddata_en=%d" % (phase, rden))
            if (a >> 10) & 1:  # auto-precharge
                start = now + (ds.wr_end + ds.tWR if we else 0)
                start = max(start, self.t.get(("act", rank, bank), -10**9) + ds.tRAS)
                last_wr = self.t.get(("wr", rank, bank))
                if last_wr is not None:
                    start = max(start, last_wr + ds.wr_end + ds.tWR)
                self.close(now, rank, bank, start)
        elif (cas and ras and not we) or (we and not cas and not ras):  # REF / ZQCS
            name = "REF" if cas else "ZQCS"
            self.stats["ref" if cas else "zq"] += 1
            if not all_ranks:
                self.err(now, "%s does not select all ranks" % name)
            for b in range(self.nbanks):
                if (rank, b) in self.open_row:
                    self.err(now, "%s with bank %s open" % (name, (rank, b)))
                self.need(now, ("pre", rank, b), ds.tRP, "tRP before " + name)
            self.busy_until[rank] = (now + (ds.tRFC if cas else ds.tZQCS), name)
        else:
            self.err(now, "unknown command ras=%d cas=%d we=%d" % (ras, cas, we))

    @passive
    def run(self):
        dfi, nph = self.dut.controller.dfi, self.dut.phy.nphases
        cycle = 0
        fsm = self.dut.controller.multiplexer.fsm  # informational only (not used by any check)
        prev_state = None
        while True:
            state = fsm.decoding.get((yield fsm.state), "?")
            state = state if isinstance(state, str) else "(delay)"
            self.states[state] = self.states.get(state, 0) + 1
            for i, p in enumerate(dfi.phases):
                ras, cas, we = 1 - (yield p.ras_n), 1 - (yield p.cas_n), 1 - (yield p.we_n)
                rden, wren = (yield p.rddata_en), (yield p.wrdata_en)
                cs_n = (yield p.cs_n)
                ranks = [r for r in range(self.nranks) if not (cs_n >> r) & 1]
                now = cycle*nph + i
                if not (ras or cas or we):
                    self.stats["deselect" if not ranks else "nop"] += 1
                    if rden or wren:
                        self.err(now, "data strobe without a command")
                    continue
                if not ranks:
                    self.err(now, "command without chip select")
                if prev_state == "WTR":
                    self.stats["in_wtr"] += 1
                bank, a = (yield p.bank), (yield p.address)
                is_ref = (cas and ras and not we) or (we and not cas and not ras)
                if not is_ref and not (ras and we and not cas and (a >> 10) & 1 and len(ranks) == self.nranks):
                    if len(ranks) != 1:
                        self.err(now, "command selects ranks %s" % ranks)
                if (rden and not (cas and not ras and not we)) or (wren and not (cas and not ras and we)):
                    self.err(now, "data strobe on a non matching command")
                for rank in ranks:
                    self.command(now, i, rank, ras, cas, we, bank, a, rden, wren, len(ranks) == self.nranks)
            cycle += 1
            prev_state = state
            yield

# Port drivers -------------------------------------------------------------------------------------

class PortDriver:
    def __init__(self, dut, monitor, port, schedule):
        self.dut, self.monitor, self.port, self.schedule = dut, monitor, port, schedule
        self.offered, self.accepted, self.kinds = [], [], []
        self.done_w, self.done_r = [], []
        self.cycle = 0
        self.finished = False

    def drive(self):
        port, dut = self.port, self.dut
        for we, addr, gap in self.schedule:
            for _ in range(gap):
                yield
            yield port.cmd.valid.eq(1)
            yield port.cmd.we.eq(we)
            yield port.cmd.addr.eq(addr)
            self.offered.append(self.cycle)
            yield
            while not (yield port.cmd.ready):
                yield
            self.accepted.append(self.cycle)
            self.kinds.append(we)
            bm, row, colw = dut.split(addr)
            self.monitor.expected[bm].append((we, row, colw << dut.address_align))
            yield port.cmd.valid.eq(0)
        # wait for completion of everything accepted
        while len(self.done_w) + len(self.done_r) < len(self.accepted):
            yield
        self.finished = True

    @passive
    def data(self):
        port = self.port
        yield port.wdata.valid.eq(1)
        yield port.wdata.we.eq(2**len(port.wdata.we) - 1)
        yield port.rdata.ready.eq(1)
        while True:
            yield
            self.cycle += 1
            if (yield port.wdata.ready):
                self.done_w.append(self.cycle)
            if (yield port.rdata.valid):
                self.done_r.append(self.cycle)

    def latencies(self):
        w = [t for t, k in zip(self.accepted, self.kinds) if k]
        r = [t for t, k in zip(self.accepted, self.kinds) if not k]
        assert len(w) == len(self.done_w) and len(r) == len(self.done_r), "lost commands"
        wait = [a - o for o, a in zip(self.offered, self.accepted)]
        lat  = [d - a for a, d in zip(w, self.done_w)] + [d - a for a, d in zip(r, self.done_r)]
        return max(wait + [0]), max(lat + [0])

# Traffic ------------------------------------------------------------------------------------------

def traffic(dut, kind, n, seed, port):
    prng = random.Random(seed*977 + port)
    nbm, ncolw = dut.nbm, 2**dut.cba_shift
    out = []
    for k in range(n):
        if kind == "conflict":      # both ports: same bank, a different row on every access
            out.append(((k + port) % 2, dut.addr(1, 2*k + port, k % ncolw), 0))
        elif kind == "stream":      # port 0: continuous row hit writes, port 1: reads (same bank / others)
            if port == 0:
                out.append((1, dut.addr(0, 5 + k//ncolw, k % ncolw), 0))
            else:
                out.append((0, dut.addr((k % 3 == 0)*(1 + k % (nbm - 1)), 5, k % ncolw), 0))
        elif kind == "rstream":     # port 0: continuous reads over two banks, port 1: sparse writes
            if port == 0:
                out.append((0, dut.addr(k % 2, 7, (k//2) % ncolw), 0))
            else:
                out.append((1, dut.addr(k % 2, 7 + (k % 16 == 15), k % ncolw), prng.randrange(6)))
        elif kind == "rsparse":     # ports 0, 1: continuous row hit reads (bank 0 / 1), port 2: a write now and then
            if port < 2:
                out.append((0, dut.addr(port, 7, k % ncolw), 0))
            elif k % 20 == 0:
                out.append((1, dut.addr(2 + (k//20) % 2, 7, k % ncolw), prng.choice([25, 40, 55])))
        elif kind == "random":
            out.append((prng.randrange(2), dut.addr(prng.randrange(nbm), prng.randrange(4), prng.randrange(ncolw)),
                        prng.choice([0, 0, 0, 1, 2, 9])))
        elif kind == "pingpong":    # direction change on every access, few banks
            out.append((k % 2, dut.addr(prng.randrange(min(nbm, 3)), prng.randrange(2), prng.randrange(ncolw)), 0))
        else:
            raise ValueError(kind)
    return out

def run_scenario(name, config, kind, n, seed=1, bound=800, **kwargs):
    dut = DUT(config, **kwargs)
    mon = Monitor(dut)
    drivers = [PortDriver(dut, mon, port, traffic(dut, kind, n, seed, i)) for i, port in enumerate(dut.ports)]
    gens = [mon.run()]
    for d in drivers:
        gens += [d.drive(), d.data()]
    @passive
    def watchdog():
        for _ in range(40*n + 4000):
            yield
        raise TimeoutError("deadlock / starvation in scenario " + name)
    gens.append(watchdog())
    t0 = time.time()
    run_simulation(dut, gens)
    elapsed = time.time() - t0
    ok = True
    worst_wait = worst_lat = 0
    for d in drivers:
        wait, lat = d.latencies()
        worst_wait, worst_lat = max(worst_wait, wait), max(worst_lat, lat)
    for bm, q in enumerate(mon.expected):
        if q:
            mon.errors.append("bank machine %d: %d accepted requests never reached the DRAM" % (bm, len(q)))
    if worst_wait > bound or worst_lat > bound:
        mon.errors.append("latency bound exceeded: wait %d, completion %d > %d" % (worst_wait, worst_lat, bound))
    print("%-32s %-4s %s wait<=%d lat<=%d (%d cycles, %.0f s)" % (name, "ok" if not mon.errors else "FAIL",
        " ".join("%s=%d" % (k, v) for k, v in mon.stats.items()),
        worst_wait, worst_lat, drivers[0].cycle, elapsed))
    print("    multiplexer FSM occupancy (informational): " +
        " ".join("%s=%d" % (k, v) for k, v in sorted(mon.states.items())))
    for e in mon.errors:
        print("    " + e)
    return not mon.errors, mon.stats


# Multiplexer level starvation check (bank machine stubs from the repository's tests) -----------------

def mux_starvation(direction, arrival, **controller_settings):
    # One bank machine streams `direction` commands forever (accepted as fast as tCCD allows); a
    # single command of the other direction shows up `arrival` cycles later on another bank
    # machine. It must be accepted within the anti-starvation time + the bus turnaround.
    from test.test_multiplexer import MultiplexerDUT
    dut = MultiplexerDUT(controller_settings=controller_settings or None)
    s = dut.settings
    write_latency = math.ceil(s.phy.cwl/s.phy.nphases)
    # Worst case: the request arrives while the multiplexer is still turning the bus around towards
    # `direction`; then the whole anti-starvation time elapses; then the bus is turned around again.
    wtr = s.timing.tWTR + write_latency + s.timing.tCCD
    rtw = s.phy.read_latency
    if direction == "read":
        bound = wtr + s.read_time + rtw + 2
    else:
        bound = rtw + s.write_time + wtr + 2
    result = {}
    def gen():
        stream, other = dut.bm_drivers[2], dut.bm_drivers[5]
        yield from (stream.read() if direction == "read" else stream.write())
        for _ in range(arrival):
            yield
        yield from (other.write() if direction == "read" else other.read())
        yield
        waited = 0
        while not (yield dut.bank_machines[5].cmd.ready):
            waited += 1
            if waited > 4*bound + 50:
                break
            yield
        result["waited"] = waited
    run_simulation(dut, gen())
    ok = result["waited"] <= bound
    print("mux: %5s stream, opposite request after %3d cycles: accepted after %3d cycles (bound %d) %s" % (
        direction, arrival, result["waited"], bound, "ok" if ok else "FAIL"))
    return ok

SCENARIOS = {
    1: [  # chip selects / ranks / refresh + ZQCS
        ("ddr3 2 ranks x 2 banks random",  "ddr3_1to4",     "random",   45, dict(nranks=2, nbanks=2, trefi=160, zqcs_period=500)),
        ("ddr3 alt 2 ranks conflict",      "ddr3_1to4_alt", "conflict", 16, dict(nranks=2, nbanks=2, trefi=150, with_auto_precharge=False)),
        ("ddr3 1 rank pingpong",           "ddr3_1to4",     "pingpong", 40, dict(trefi=140, zqcs_period=400)),
        ("ddr2 2 ranks random 3 ports",    "ddr2_1to2",     "random",   30, dict(nranks=2, nbanks=2, nports=3, trefi=130)),
        ("sdr random",                     "sdr_1to1",      "random",   50, dict(trefi=120)),
    ],
    2: [  # direction changes / bank conflicts: what happens around the write-to-read turnaround
        ("ddr3 pingpong",                  "ddr3_1to4",     "pingpong", 50, dict(trefi=170, zqcs_period=600)),
        ("ddr3 alt phases conflict",       "ddr3_1to4_alt", "conflict", 12, dict(trefi=150)),
        ("ddr3 alt random 4 ports",        "ddr3_1to4_alt", "random",   20, dict(nports=4, trefi=150, write_time=6, read_time=8)),
        ("ddr3 alt no autoprecharge",      "ddr3_1to4_alt", "pingpong", 40, dict(trefi=140, with_auto_precharge=False)),
        ("ddr2 pingpong 2 ranks",          "ddr2_1to2",     "pingpong", 40, dict(nranks=2, nbanks=2, trefi=130)),
        ("sdr pingpong",                   "sdr_1to1",      "pingpong", 60, dict(trefi=120)),
        ("ddr3 random 3 ports",            "ddr3_1to4",     "random",   30, dict(nports=3, trefi=160)),
    ],
    3: [  # starvation: continuous one direction against the other
        ("ddr3 write stream",              "ddr3_1to4",     "stream",   120, dict(trefi=200)),
        ("ddr3 alt read stream",           "ddr3_1to4_alt", "rstream",  45, dict(trefi=190)),
        ("ddr3 short timers",              "ddr3_1to4",     "stream",   80, dict(trefi=180, read_time=8, write_time=4)),
        ("ddr3 sparse writes",             "ddr3_1to4",     "rsparse",  200, dict(nports=3, trefi=400)),
        ("ddr3 timers disabled",           "ddr3_1to4",     "rstream",  25,  dict(trefi=180, read_time=0, write_time=0)),
        ("ddr2 write stream",              "ddr2_1to2",     "stream",   80, dict(trefi=150, cmd_buffer_depth=4)),
        ("sdr read stream",                "sdr_1to1",      "rstream",  50, dict(trefi=120)),
    ],
}

if __name__ == "__main__":
    good = True
    demo = DEMO
    for name, config, kind, n, kwargs in SCENARIOS[demo]:
        ok, stats = run_scenario(name, config, kind, n, **kwargs)
        good &= ok
    if demo == 3:
        for direction in ["read", "write"]:
            for arrival in [2, 11, 40, 75]:
                good &= mux_starvation(direction, arrival)
        good &= mux_starvation("read", 30, read_time=8, write_time=4)
        good &= mux_starvation("write", 30, read_time=8, write_time=4)
    print("PASS" if good else "FAIL")
    sys.exit(0 if good else 1)
