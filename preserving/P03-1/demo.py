#!/usr/bin/env python3
"""demo1: whole-core read-after-write check (property C01) + address mapping seen on the DFI bus (C06).

LiteDRAMController + LiteDRAMCrossbar are connected to the repository's SDRAMPHYModel (a behavioural
DRAM behind a DFI interface).  Random traffic is driven on several native ports by masters that
 * hold every command until it is accepted,
 * offer the write data together with the write command (and hold it until it is taken),
 * always accept read data.
A reference memory is updated in command-acceptance order; every read must return exactly one word, in
command order per port, equal to the reference contents at the moment the read command was accepted.
Nothing in here depends on internal signal names or on latencies: only port-level behaviour is observed.
"""
import sys
sys.path.insert(0, "/repo")

import random
import time

from migen import *

import litedram
assert litedram.__file__.startswith("/repo/"), litedram.__file__

from litedram.common import *
from litedram.modules import SDRModule, DDR3Module, _TechnologyTimings, _SpeedgradeTimings
from litedram.phy.model import SDRAMPHYModel
from litedram.core.controller import ControllerSettings, LiteDRAMController
from litedram.core.crossbar import LiteDRAMCrossbar

# Tiny devices (so that the behavioural memory stays small and rows/banks change often) ------------

class TinySDR(SDRModule):
    nbanks = 4
    nrows  = 32
    ncols  = 256
    # short tREFI: several refreshes land in the middle of the traffic
    technology_timings = _TechnologyTimings(tREFI=1000, tWTR=(2, None), tCCD=(1, None), tRRD=(None, 15))
    speedgrade_timings = {"default": _SpeedgradeTimings(tRP=15, tRCD=15, tWR=14, tRFC=(None, 66), tFAW=None, tRAS=37)}

class TinyDDR3(DDR3Module):
    nbanks = 8
    nrows  = 16
    ncols  = 1024
    technology_timings = _TechnologyTimings(tREFI=1000, tWTR=(4, 7.5), tCCD=(4, None), tRRD=(4, 10), tZQCS=(64, 80))
    speedgrade_timings = {"default": _SpeedgradeTimings(tRP=13.1, tRCD=13.1, tWR=13.1, tRFC=(64, None), tFAW=(None, 50), tRAS=37.5)}

# DUT ----------------------------------------------------------------------------------------------

class Core(Module):
    def __init__(self, module_cls, rate, data_width, nports, **controller_kwargs):
        clk_freq = 100e6
        module   = module_cls(clk_freq, rate)
        # The DRAM model looks at A10 of precharge commands: keep the address bus at least 11 bits wide.
        module.geom_settings.addressbits = max(module.geom_settings.addressbits, 11)
        self.submodules.phy = SDRAMPHYModel(module, data_width=data_width, clk_freq=clk_freq)
        self.submodules.controller = LiteDRAMController(
            phy_settings        = self.phy.settings,
            geom_settings       = module.geom_settings,
            timing_settings     = module.timing_settings,
            clk_freq            = clk_freq,
            controller_settings = ControllerSettings(**controller_kwargs))
        self.comb += self.controller.dfi.connect(self.phy.dfi)
        self.submodules.crossbar = LiteDRAMCrossbar(self.controller.interface)
        self.ports = [self.crossbar.get_port() for _ in range(nports)]

# Port master + reference model ---------------------------------------------------------------------

class Scoreboard:
    def __init__(self, nbytes):
        self.nbytes  = nbytes
        self.mem     = {}   # addr -> list of bytes (reference, updated in acceptance order)
        self.errors  = []
        self.nreads  = 0
        self.nwrites = 0

    def get(self, addr):
        return self.mem.setdefault(addr, [0]*self.nbytes)

    def write(self, addr, data, we):
        word = self.get(addr)
        for i in range(self.nbytes):
            if (we >> i) & 1:
                word[i] = (data >> (8*i)) & 0xff
        self.nwrites += 1

    def read(self, addr):
        self.nreads += 1
        return sum(b << (8*i) for i, b in enumerate(self.get(addr)))


def port_master(port, ops, sb, prng, name):
    """One generator does cmd + wdata + rdata of a port, cycle by cycle."""
    pending   = None    # command currently offered
    wq        = []      # write data of offered/accepted writes, not yet taken
    expected  = []      # expected data of accepted reads, in order
    idx       = 0
    wq_driven = False
    yield port.rdata.ready.eq(1)
    while idx < len(ops) or pending is not None or wq or expected:
        # -- sample the current cycle
        if pending is not None and (yield port.cmd.ready):
            we, addr, data, ben = pending
            if we:
                sb.write(addr, data, ben)
            else:
                expected.append((addr, sb.read(addr)))
            pending = None
        if (yield port.wdata.ready):
            if wq_driven:
                wq.pop(0)
            else:
                sb.errors.append("%s: wdata.ready without a pending write" % name)
        if (yield port.rdata.valid):
            got = (yield port.rdata.data)
            if not expected:
                sb.errors.append("%s: unexpected read data 0x%x" % (name, got))
            else:
                addr, exp = expected.pop(0)
                if got != exp:
                    sb.errors.append("%s: read @0x%x returned 0x%x, expected 0x%x" % (name, addr, got, exp))
        # -- drive the next cycle
        if pending is None and idx < len(ops) and prng.random() < 0.7:
            pending = ops[idx]
            idx += 1
            if pending[0]:
                wq.append((pending[2], pending[3]))  # data offered together with the command
        yield port.cmd.valid.eq(pending is not None)
        if pending is not None:
            yield port.cmd.we.eq(pending[0])
            yield port.cmd.addr.eq(pending[1])
        wq_driven = bool(wq)
        yield port.wdata.valid.eq(wq_driven)
        if wq:
            yield port.wdata.data.eq(wq[0][0])
            yield port.wdata.we.eq(wq[0][1])
        yield
    for _ in range(8):  # no stray read data afterwards
        if (yield port.rdata.valid):
            sb.errors.append("%s: stray read data" % name)
        yield


@passive
def watchdog(stats, max_cycles, name):
    # (top-level function on purpose: migen's name tracer on python 3.12 dislikes closures over the DUT)
    while True:
        stats["cycles"] += 1
        if stats["cycles"] > max_cycles:
            raise TimeoutError(name)
        yield


def make_ops(prng, n, addr_pool, data_width):
    nbytes = data_width//8
    ops = []
    for _ in range(n):
        addr = prng.choice(addr_pool)
        if prng.random() < 0.5:
            ben = prng.choice([2**nbytes - 1, prng.getrandbits(nbytes), prng.getrandbits(nbytes)])
            ops.append((1, addr, prng.getrandbits(data_width), ben))
        else:
            ops.append((0, addr, 0, 0))
    return ops


def scenario(name, module_cls, rate, data_width, nports, nops, seed, **controller_kwargs):
    t0   = time.time()
    prng = random.Random(seed)
    dut  = Core(module_cls, rate, data_width, nports, **controller_kwargs)
    port = dut.ports[0]
    aw, dw = port.address_width, port.data_width
    # Address pool: a few hot words shared by all ports (ordering between ports), neighbours differing in
    # one low / bank / row bit (injectivity), and random addresses over the whole device.
    pool  = [prng.getrandbits(aw) for _ in range(6)]
    pool += [pool[0] ^ (1 << b) for b in range(aw)]
    pool += [prng.getrandbits(aw) for _ in range(12)]
    pool += [0, 2**aw - 1]
    sb   = Scoreboard(dw//8)
    gens = [port_master(p, make_ops(prng, nops, pool, dw), sb, random.Random(seed*100 + i), "port%d" % i)
            for i, p in enumerate(dut.ports)]

    stats = {"cycles": 0}
    run_simulation(dut, gens + [watchdog(stats, 400*nops, name)])
    ok = not sb.errors
    # The refresher fires every tREFI (100 cycles here) whatever the traffic: make sure that several
    # refreshes fell into the traffic without having to look at the DFI bus.
    if stats["cycles"] < 3*100:
        sb.errors.append("scenario too short for refreshes to interleave (%d cycles)" % stats["cycles"])
        ok = False
    print("%-46s reads=%3d writes=%3d cycles=%5d  %4.1fs  %s" % (
        name, sb.nreads, sb.nwrites, stats["cycles"], time.time() - t0, "ok" if ok else "FAIL"))
    for e in sb.errors[:5]:
        print("   ", e)
    return ok


def main():
    ok = True
    ok &= scenario("SDR 1:1, 2 ports, defaults",                   TinySDR,  "1:1", 16, 2, 32, seed=1)
    ok &= scenario("SDR 1:1, 3 ports, no auto-precharge, depth 0", TinySDR,  "1:1", 16, 3, 20, seed=2,
        with_auto_precharge=False, cmd_buffer_depth=0)
    ok &= scenario("SDR 1:1, 2 ports, buffered FIFO depth 4",      TinySDR,  "1:1", 16, 2, 28, seed=4,
        cmd_buffer_depth=4, cmd_buffer_buffered=True)
    ok &= scenario("DDR3 1:4, 2 ports, bank_byte_alignment",       TinyDDR3, "1:4", 8,  2, 22, seed=6,
        bank_byte_alignment=0x1000, cmd_buffer_depth=1)
    print("PASS" if ok else "FAIL")
    sys.exit(0 if ok else 1)

if __name__ == "__main__":
    main()
