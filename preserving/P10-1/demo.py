#!/venv/bin/python
"""demo1: Wishbone -> native bridge, equal and wider Wishbone widths (ratio 1, 2, 4, 8).

Black-box check of the C10 property on LiteDRAMWishbone2Native: a Wishbone master issues random classic
and block (cyc held) accesses, some of them dropped before the acknowledge at a random cycle, against a
native-port memory model with random command / write-data / read-data timings. Checked: one acknowledge
per non-aborted access, none while the master is idle, read data equal to a byte-accurate reference,
final memory content equal to the reference. Nothing internal to the bridge is looked at.

Focus of this demo (change 1 = registered read response): reads aborted at every possible cycle, each
followed at once by a read of another address and by a write/read of the same address.
"""
import sys, random
sys.path.insert(0, "/repo")

from migen import *
from litex.gen.sim import run_simulation
from litex.soc.interconnect import wishbone

import litedram
from litedram.common import LiteDRAMNativePort
from litedram.frontend.wishbone import LiteDRAMWishbone2Native

assert litedram.__file__.startswith("/repo/"), litedram.__file__

CTI_NONE, CTI_INC, CTI_END = 0b000, 0b010, 0b111


class Failure(Exception):
    pass


def check(cond, msg):
    if not cond:
        raise Failure(msg)


# Native port memory model ------------------------------------------------------------------------

class NativeMemory:
    """In-order native-port slave: commands execute in acceptance order, write data is only taken for
    the oldest command, a read returns the memory content at the time its data is presented."""
    def __init__(self, port, seed, p_cmd=60, p_wdata=60, p_rdata=60):
        self.port  = port
        self.bytes = {}  # byte address -> value
        self.rng   = random.Random(seed)
        self.p     = (p_cmd, p_wdata, p_rdata)
        self.queue = []  # (we, addr)
        self.n_cmd = {0: 0, 1: 0}

    def word(self, addr):
        n = self.port.data_width//8
        return sum(self.bytes.get(addr*n + i, 0) << (8*i) for i in range(n))

    @passive
    def run(self):
        port = self.port
        n    = port.data_width//8
        cmd_ready = wdata_ready = rdata_valid = 0
        while True:
            # Handshakes of the current cycle.
            if cmd_ready and (yield port.cmd.valid):
                we = (yield port.cmd.we)
                self.queue.append((we, (yield port.cmd.addr)))
                self.n_cmd[we] += 1
            elif wdata_ready and (yield port.wdata.valid):
                we, addr = self.queue.pop(0)
                assert we
                data, sel = (yield port.wdata.data), (yield port.wdata.we)
                for i in range(n):
                    if (sel >> i) & 1:
                        self.bytes[addr*n + i] = (data >> (8*i)) & 0xff
            elif rdata_valid and (yield port.rdata.ready):
                self.queue.pop(0)
            # Outputs of the next cycle (one kind of event per cycle keeps the model simple and in order).
            cmd_ready = wdata_ready = rdata_valid = 0
            head = self.queue[0] if self.queue else None
            kind = self.rng.randrange(3)
            if kind == 0 or head is None:
                cmd_ready = int(self.rng.randrange(100) < self.p[0] and len(self.queue) < 16)
            elif head[0]:
                wdata_ready = int(self.rng.randrange(100) < self.p[1])
            else:
                rdata_valid = int(self.rng.randrange(100) < self.p[2])
            yield port.cmd.ready.eq(cmd_ready)
            yield port.wdata.ready.eq(wdata_ready)
            yield port.rdata.valid.eq(rdata_valid)
            yield port.rdata.data.eq(self.word(head[1]) if rdata_valid else 0)
            yield


# Wishbone master ---------------------------------------------------------------------------------

class Master:
    def __init__(self, wb, base_address, seed):
        self.wb    = wb
        self.n     = len(wb.sel)
        self.base  = base_address//self.n  # in Wishbone words
        # Byte address (relative to base) -> set of allowed values. An acknowledged write fixes the
        # value; a write dropped before its acknowledge may or may not have reached the memory (the
        # property only promises that it does not disturb anything else); a read resolves the choice.
        self.ref   = {}
        self.rng   = random.Random(seed)
        self.busy  = 0                     # cyc as driven in the current cycle
        self.acks  = 0
        self.done  = False
        self.stats = dict(reads=0, writes=0, aborted=0)

    @passive
    def monitor(self):
        # No acknowledge may ever be seen while the master does not drive cyc.
        while True:
            if (yield self.wb.ack):
                check((yield self.wb.cyc), "ack while cyc is low")
            yield

    def idle(self, cycles=1, cyc=0):
        wb = self.wb
        yield wb.cyc.eq(cyc)
        yield wb.stb.eq(0)
        yield wb.we.eq(0)
        yield wb.cti.eq(CTI_NONE)
        for _ in range(cycles):
            yield
            check(not (yield wb.ack), "ack without stb")

    def access(self, adr, we, data=0, sel=None, cti=CTI_NONE, abort_after=None, timeout=2000):
        """One access. abort_after=k: drop cyc/stb after k cycles without acknowledge. Returns
        the read data, or None when aborted."""
        wb  = self.wb
        sel = 2**self.n - 1 if sel is None else sel
        yield wb.cyc.eq(1)
        yield wb.stb.eq(1)
        yield wb.we.eq(we)
        yield wb.adr.eq(self.base + adr)
        yield wb.dat_w.eq(data)
        yield wb.sel.eq(sel)
        yield wb.cti.eq(cti)
        cycles = 0
        while True:
            yield
            cycles += 1
            if (yield wb.ack):
                break
            if abort_after is not None and cycles >= abort_after:
                self.stats["aborted"] += 1
                if we:
                    for i in range(self.n):
                        if (sel >> i) & 1:
                            self.ref.setdefault(adr*self.n + i, {0}).add((data >> (8*i)) & 0xff)
                yield from self.idle(self.rng.choice([1, 1, 2, 5]))
                return None
            check(cycles < timeout, "no acknowledge for adr=%d we=%d" % (adr, we))
        if we:
            self.stats["writes"] += 1
            for i in range(self.n):
                if (sel >> i) & 1:
                    self.ref[adr*self.n + i] = {(data >> (8*i)) & 0xff}
            return 0
        self.stats["reads"] += 1
        got = (yield wb.dat_r)
        for i in range(self.n):
            byte, allowed = (got >> (8*i)) & 0xff, self.ref.get(adr*self.n + i, {0})
            check(byte in allowed, "read adr=%d: got %x, byte %d not in %s" % (adr, got, i, allowed))
            self.ref[adr*self.n + i] = {byte}
        return got

    def rand_data(self):
        return self.rng.getrandbits(8*self.n)

    def rand_sel(self):
        return self.rng.choice([2**self.n - 1, 2**self.n - 1, self.rng.getrandbits(self.n)])

    def random_traffic(self, n_ops, n_adr, p_abort=20):
        rng = self.rng
        for _ in range(n_ops):
            kind = rng.randrange(4)
            if kind <= 1:
                # Classic single access, possibly aborted.
                abort = rng.choice([1, 1, 2, 2, 3, 4, 6, 9, 14]) if rng.randrange(100) < p_abort else None
                we    = rng.randrange(2)
                yield from self.access(rng.randrange(n_adr), we, self.rand_data(), self.rand_sel(),
                    abort_after=abort)
                if rng.randrange(2):
                    yield from self.idle(rng.randrange(1, 4))
            else:
                # Block / incrementing burst: cyc held, consecutive addresses, optional stb gaps.
                length = rng.randrange(2, 9)
                start  = rng.randrange(n_adr)
                we     = rng.randrange(2)
                inc    = kind == 3
                for i in range(length):
                    last  = i == length - 1
                    cti   = (CTI_END if last else CTI_INC) if inc else CTI_NONE
                    abort = rng.choice([1, 1, 2, 2, 3, 4, 6, 9, 14]) if rng.randrange(100) < p_abort//2 else None
                    r = yield from self.access((start + i) % n_adr, we, self.rand_data(),
                        self.rand_sel(), cti=cti, abort_after=abort)
                    if r is None:
                        break
                    if not last and rng.randrange(4) == 0:
                        yield from self.idle(rng.randrange(1, 3), cyc=1)
                else:
                    yield from self.idle(rng.randrange(1, 3))


# Scenarios ---------------------------------------------------------------------------------------

def directed(m, n_adr):
    """Abort a read (and a write) after every number of cycles in 1..14 and check what follows."""
    for k in range(1, 15):
        a, b = k % n_adr, (k + 5) % n_adr
        yield from m.access(a, 1, m.rand_data())
        yield from m.access(b, 1, m.rand_data())
        yield from m.access(a, 0, abort_after=k)           # dropped read (or completed, if fast)...
        yield from m.access(b, 0)                          # ...never answers the next read
        yield from m.access(a, 1, m.rand_data(), m.rand_sel())
        yield from m.access(a, 0)
        yield from m.access(b, 1, m.rand_data(), abort_after=k)   # dropped write
        yield from m.access(b, 0)
        yield from m.access(a, 0, cti=CTI_INC)
        yield from m.access((a + 1) % n_adr, 0, cti=CTI_END)


def run_config(wb_width, port_width, base_address, seed, n_ops, timings):
    wb   = wishbone.Interface(data_width=wb_width, adr_width=30)
    port = LiteDRAMNativePort("both", address_width=30, data_width=port_width)
    dut  = Module()
    dut.submodules += LiteDRAMWishbone2Native(wb, port, base_address=base_address)
    mem    = NativeMemory(port, seed + 1, *timings)
    master = Master(wb, base_address, seed)
    n_adr  = 12

    def main():
        yield from master.idle(3)
        yield from directed(master, n_adr)
        yield from master.random_traffic(n_ops, n_adr)
        yield from master.idle(200)  # let posted writes drain
        master.done = True

    run_simulation(dut, [main(), master.monitor(), mem.run()])
    check(master.done, "main generator did not finish")
    nbytes = n_adr*wb_width//8
    for i in range(nbytes):
        check(mem.bytes.get(i, 0) in master.ref.get(i, {0}),
            "final memory byte %d: %x, expected %s" % (i, mem.bytes.get(i, 0), master.ref.get(i, {0})))
    check(all(a < nbytes for a in mem.bytes), "write outside of the addressed range")
    return master.stats, mem.n_cmd


CONFIGS = [
    # wishbone, port, base address, seed, operations, (p_cmd, p_wdata, p_rdata)
    (32, 32, 0x00000000, 1, 150, (60, 60, 60)),
    (32, 32, 0x40000000, 2, 150, (100, 100, 100)),
    (64, 32, 0x10000000, 3, 120, (50, 80, 30)),
    (32,  8, 0x00000000, 4, 100, (90, 40, 90)),
    (64,  8, 0x20000000, 5,  80, (70, 70, 70)),
    ( 8,  8, 0x00000100, 6, 120, (30, 90, 60)),
]

if __name__ == "__main__":
    try:
        for cfg in CONFIGS:
            stats, n_cmd = run_config(*cfg)
            print("wb=%3d port=%3d base=0x%08x: %s native rd/wr cmds=%d/%d" % (
                cfg[0], cfg[1], cfg[2], stats, n_cmd[0], n_cmd[1]))
    except Failure as e:
        print("FAIL:", e)
        sys.exit(1)
    print("PASS")
