#!/usr/bin/env python3
# C19: the bundled simulation PHY/DRAM model (litedram/phy/model.py) against an independent,
# behavioural DRAM model written here (a dict of words + open row per bank).
#
# For legal DFI traces (activate / back-to-back writes with byte masks / back-to-back reads /
# precharge / precharge-all / refresh, several banks open at once, row command and column command in
# the same cycle on different phases) we check, looking at the DFI only:
#  - rddata_valid is raised exactly `read_latency` cycles after each read command, on all phases,
#  - the data returned while rddata_valid is high is the reference data (rddata is a don't-care
#    while rddata_valid is low, as on any DFI),
#  - at the end, every location touched and a sample of untouched ones (init image laid out with the
#    selected address mapping, zero beyond the image) reads back like the reference memory.
#
# Passes on the unchanged code and with patch3 applied.

import sys, random, copy
sys.path.insert(0, "/repo")

from migen import *

from litedram import modules as litedram_modules
from litedram.phy.model import SDRAMPHYModel, get_sdram_phy_settings
assert sys.modules["litedram"].__file__.startswith("/repo/"), sys.modules["litedram"].__file__

# Small geometries (the migen simulator turns every memory word into a signal).
class TinySDR(litedram_modules.MT48LC4M16):  nrows = 16; ncols = 32
class TinyDDR(litedram_modules.MT46V32M16):  nrows = 16; ncols = 32
class TinyDDR2(litedram_modules.MT47H64M16): nrows = 16; ncols = 64
class TinyDDR3(litedram_modules.MT41K64M16): nrows = 16; ncols = 64

# Reference DRAM ------------------------------------------------------------------------------------

class RefDRAM:
    """Word = one DFI cycle worth of data (all phases), i.e. `cols_per_word` consecutive columns."""
    def __init__(self, nbanks, nrows, ncols, col_bytes, cols_per_word, init_words32, mapping):
        self.nbanks, self.nrows, self.ncols = nbanks, nrows, ncols
        self.col_bytes, self.cols_per_word  = col_bytes, cols_per_word
        self.word_bytes = col_bytes*cols_per_word
        self.image   = b"".join(w.to_bytes(4, "little") for w in init_words32)
        self.mapping = mapping
        self.mem     = {}
        self.open    = [None]*nbanks

    def linear(self, bank, row, col):
        if self.mapping == "ROW_BANK_COL":
            return ((row*self.nbanks + bank)*self.ncols + col)*self.col_bytes
        if self.mapping == "BANK_ROW_COL":
            return ((bank*self.nrows + row)*self.ncols + col)*self.col_bytes
        raise ValueError

    def load(self, bank, row, col):
        col -= col % self.cols_per_word
        key = (bank, row, col)
        if key not in self.mem:
            a = self.linear(bank, row, col)
            chunk = self.image[a:a + self.word_bytes]
            self.mem[key] = int.from_bytes(chunk + bytes(self.word_bytes - len(chunk)), "little")
        return self.mem[key]

    def store(self, bank, row, col, data, mask):
        col -= col % self.cols_per_word
        old = self.load(bank, row, col)
        new = 0
        for b in range(self.word_bytes):
            src = old if (mask >> b) & 1 else data  # mask bit set: byte not written
            new |= src & (0xff << (8*b))
        self.mem[(bank, row, col)] = new

# Trace generation ----------------------------------------------------------------------------------

NOP = dict(cs_n=1, ras_n=1, cas_n=1, we_n=1)
def ACT(bank, row):       return dict(cs_n=0, ras_n=0, cas_n=1, we_n=1, bank=bank, address=row)
def PRE(bank, all=False): return dict(cs_n=0, ras_n=0, cas_n=1, we_n=0, bank=bank, address=(1 << 10) if all else 0)
def REF():                return dict(cs_n=0, ras_n=0, cas_n=0, we_n=1)
def RD(bank, col):        return dict(cs_n=0, ras_n=1, cas_n=0, we_n=1, bank=bank, address=col)
def WR(bank, col):        return dict(cs_n=0, ras_n=1, cas_n=0, we_n=0, bank=bank, address=col)


def make_trace(prng, nbanks, nrows, ncols, cols_per_word, nphases, rdphase, wrphase, RL, WL, word_bits, nrounds):
    """Returns {cycle: {phase: cmd}}, {cycle: (data, mask)} for the write data and the touched locations."""
    cmds, wrdata, touched = {}, {}, set()
    t = 4
    rowphase = lambda colphase: (colphase + 1 + prng.randrange(nphases - 1)) % nphases if nphases > 1 else None
    def put(cycle, phase, cmd):
        assert phase not in cmds.setdefault(cycle, {})
        cmds[cycle][phase] = cmd
    rows_pool = [0, 1, 2, 3, nrows//2, nrows - 1]
    for rnd in range(nrounds):
        # open 1..3 banks (tRCD/tRRD: a few cycles apart)
        banks = prng.sample(range(nbanks), prng.choice([1, 2, 3]))
        rows  = {b: prng.choice(rows_pool) for b in banks}
        for b in banks:
            put(t, prng.randrange(nphases), ACT(b, rows[b])); t += 3
        t += 2
        late_bank = None
        for burst in range(prng.choice([1, 2, 3])):
            # back-to-back writes, one per cycle, hopping between the open banks
            n = prng.choice([1, 2, 5])
            for i in range(n):
                b   = prng.choice(banks)
                col = prng.randrange(ncols//cols_per_word)*cols_per_word
                put(t, wrphase, WR(b, col))
                wrdata[t + WL] = (prng.getrandbits(word_bits), prng.choice([0, 0, prng.getrandbits(word_bits//8), 2**(word_bits//8) - 1]))
                touched.add((b, rows[b], col))
                t += 1
            t += WL + 5  # tWTR
            # back-to-back reads; a mix of written and fresh locations. Meanwhile (same cycle, other
            # phase) another bank may get activated.
            n = prng.choice([1, 3, 6])
            spare = [b for b in range(nbanks) if b not in banks]
            for i in range(n):
                b = prng.choice(banks)
                known = [k for k in touched if k[0] == b and k[1] == rows[b]]
                if known and prng.random() < 0.7:
                    col = prng.choice(known)[2]
                else:
                    col = prng.randrange(ncols//cols_per_word)*cols_per_word
                    touched.add((b, rows[b], col))
                put(t, rdphase, RD(b, col))
                if i == 1 and spare and nphases > 1 and late_bank is None:
                    late_bank = spare[0]
                    rows[late_bank] = prng.choice(rows_pool)
                    put(t, rowphase(rdphase), ACT(late_bank, rows[late_bank]))
                t += 1
            if late_bank is not None and late_bank not in banks:
                banks.append(late_bank)
            t += RL + 3  # read to write turnaround
        # close: either one by one or precharge-all, then sometimes a refresh
        t += 3
        if prng.random() < 0.5:
            for b in banks:
                put(t, prng.randrange(nphases), PRE(b)); t += 1
        else:
            put(t, prng.randrange(nphases), PRE(prng.randrange(nbanks), all=True)); t += 1
        t += 3
        if prng.random() < 0.5:
            put(t, 0, REF()); t += 8
    return cmds, wrdata, touched, t


def readback_trace(locations, t, nphases, rdphase):
    """Plain activate / read / precharge for every location, grouped by (bank, row)."""
    cmds = {}
    by_row = {}
    for b, r, c in sorted(locations):
        by_row.setdefault((b, r), []).append(c)
    for (b, r), cols in by_row.items():
        cmds[t] = {0: ACT(b, r)}; t += 3
        for c in cols:
            cmds[t] = {rdphase: RD(b, c)}; t += 1
        t += 2
        cmds[t] = {0: PRE(b)}; t += 3
    return cmds, t

# Testbench -----------------------------------------------------------------------------------------

def run_config(module_cls, rate, data_width, mapping, init_len, seed, latencies=None, nrounds=12):
    prng   = random.Random(seed)
    module = module_cls(100e6, rate)
    # DFI address bus wide enough for A10 (precharge-all), as with any real geometry.
    module.geom_settings.addressbits = max(module.geom_settings.addressbits, 11)
    settings = get_sdram_phy_settings(module.memtype, data_width, 100e6)
    if latencies is not None:
        settings = copy.copy(settings)
        settings.read_latency, settings.write_latency = latencies
    init = [prng.getrandbits(32) for _ in range(init_len)]
    dut  = SDRAMPHYModel(module, settings, init=list(init), address_mapping=mapping)

    nphases   = settings.nphases
    RL, WL    = settings.read_latency, settings.write_latency
    word_bits = settings.dfi_databits*nphases
    cols_per_word = word_bits//settings.databits
    g = module.geom_settings
    nbanks, nrows, ncols = 2**g.bankbits, 2**g.rowbits, 2**g.colbits
    ref = RefDRAM(nbanks, nrows, ncols, settings.databits//8, cols_per_word, init, mapping)

    cmds, wrdata, touched, t_end = make_trace(prng, nbanks, nrows, ncols, cols_per_word, nphases,
        settings.rdphase, settings.wrphase, RL, WL, word_bits, nrounds)
    # final contents: everything touched + untouched locations in/around/after the init image
    extra = set()
    for _ in range(40):
        extra.add((prng.randrange(nbanks), prng.choice([0, 1, 2, 3, nrows//2, nrows - 1]),
                   prng.randrange(ncols//cols_per_word)*cols_per_word))
    rb_cmds, t_end = readback_trace(touched | extra, t_end + RL + 4, nphases, settings.rdphase)
    cmds.update(rb_cmds)
    t_end += RL + 4

    expected_rd = {}  # cycle -> data
    errors = []
    stats  = dict(reads=0, writes=0, acts=0)

    def reference_step(t):
        # writes land first only if they were due in earlier cycles: a write due at t is committed
        # at the end of t, a read at t sees the array as it is at the start of t.
        for phase, cmd in cmds.get(t, {}).items():
            key = (cmd["cs_n"], cmd["ras_n"], cmd["cas_n"], cmd["we_n"])
            if key == (0, 1, 0, 1):
                row = ref.open[cmd["bank"]]
                assert row is not None, "illegal trace"
                expected_rd[t + RL] = ref.load(cmd["bank"], row, cmd["address"])
                stats["reads"] += 1
        for phase, cmd in cmds.get(t, {}).items():
            key = (cmd["cs_n"], cmd["ras_n"], cmd["cas_n"], cmd["we_n"])
            if key == (0, 0, 1, 1):
                assert ref.open[cmd["bank"]] is None, "illegal trace"
                ref.open[cmd["bank"]] = cmd["address"]
                stats["acts"] += 1
            elif key == (0, 0, 1, 0):
                for b in (range(nbanks) if cmd["address"] & (1 << 10) else [cmd["bank"]]):
                    ref.open[b] = None
            elif key == (0, 1, 0, 0):
                pending_wr[t + WL] = (cmd["bank"], ref.open[cmd["bank"]], cmd["address"])
                assert ref.open[cmd["bank"]] is not None, "illegal trace"
        if t in pending_wr:
            bank, row, col = pending_wr.pop(t)
            data, mask = wrdata[t]
            ref.store(bank, row, col, data, mask)
            stats["writes"] += 1
    pending_wr = {}

    def gen():
        dfi_w  = settings.dfi_databits
        for t in range(t_end):
            # observe cycle t-1
            if t > 0:
                valids = []
                data   = 0
                for n, ph in enumerate(dut.dfi.phases):
                    valids.append((yield ph.rddata_valid))
                    data |= (yield ph.rddata) << (n*dfi_w)
                exp = expected_rd.pop(t - 1, None)
                if exp is None:
                    if any(valids):
                        errors.append(f"cycle {t-1}: unexpected rddata_valid {valids}")
                else:
                    if not any(valids):
                        errors.append(f"cycle {t-1}: rddata_valid missing {valids}")
                    elif data != exp:
                        errors.append(f"cycle {t-1}: rddata {data:#x} != {exp:#x}")
            # drive cycle t
            for n, ph in enumerate(dut.dfi.phases):
                cmd = dict(NOP, bank=prng.getrandbits(g.bankbits), address=prng.getrandbits(g.addressbits))
                cmd.update(cmds.get(t, {}).get(n, {}))
                for name, val in cmd.items():
                    yield getattr(ph, name).eq(val)
            if t in wrdata:
                data, mask = wrdata[t]
            else:  # bus contents outside of a write burst do not matter
                data, mask = prng.getrandbits(word_bits), prng.getrandbits(word_bits//8)
            for n, ph in enumerate(dut.dfi.phases):
                yield ph.wrdata.eq((data >> (n*dfi_w)) & (2**dfi_w - 1))
                yield ph.wrdata_mask.eq((mask >> (n*dfi_w//8)) & (2**(dfi_w//8) - 1))
            reference_step(t)
            yield

    run_simulation(dut, gen())
    assert not expected_rd and not pending_wr
    assert stats["reads"] > 60 and stats["writes"] > 15, stats
    return errors, stats, (RL, WL)


def main():
    ok = True
    configs = [
        # module, rate, DQ bits, mapping, init image length (32-bit words), (read, write) latency override
        (TinySDR,  "1:1", 16, "ROW_BANK_COL", 3*4*32*2//4 + 16, None),
        (TinySDR,  "1:1", 16, "BANK_ROW_COL", 16*32*2//4 + 100, None),
        (TinySDR,  "1:1", 32, "ROW_BANK_COL", 4*16*32*4//4, (1, 0)),
        (TinyDDR,  "1:2", 16, "ROW_BANK_COL", 700, None),
        (TinyDDR,  "1:2", 16, "BANK_ROW_COL", 16*32*2//4*2 + 64, (2, 3)),
        (TinyDDR2, "1:2", 16, "ROW_BANK_COL", 2000, None),
        (TinyDDR3, "1:4", 16, "ROW_BANK_COL", 3*8*64*2//4, None),
        (TinyDDR3, "1:4", 16, "BANK_ROW_COL", 16*64*2//4*3 + 128, None),
        (TinyDDR3, "1:4",  8, "ROW_BANK_COL", 1024, (3, 2)),
        (TinyDDR3, "1:4", 32, "ROW_BANK_COL", 0, None),
    ]
    for seed, (module_cls, rate, dq, mapping, init_len, lat) in enumerate(configs):
        errors, stats, (RL, WL) = run_config(module_cls, rate, dq, mapping, init_len, 1000 + seed, lat)
        print(f"{module_cls.__name__:9} dq={dq:2} {mapping} init={init_len:6} RL={RL} WL={WL}: {stats} errors={len(errors)}")
        for e in errors[:5]:
            print("   ", e)
        ok &= not errors
    print("PASS" if ok else "FAIL")
    sys.exit(0 if ok else 1)


if __name__ == "__main__":
    main()
