#!/usr/bin/env python3
# C12 demo: DMA reader / writer stream exactly once, in order, without overrun.
# Self-contained; passes on clean HEAD and with patch1 applied.
import sys
sys.path.insert(0, "/repo")

import random

from migen import *
from litex.gen.sim import *

import litedram
assert litedram.__file__.startswith("/repo"), litedram.__file__

from litedram.common import LiteDRAMNativePort
from litedram.frontend.axi import LiteDRAMAXIPort
from litedram.frontend.dma import LiteDRAMDMAReader, LiteDRAMDMAWriter


def mem_value(addr, width):
    return ((addr * 0x9e3779b1) ^ (addr << 7) ^ 0x5a5a5a5a5a5a5a5a) & (2**width - 1)


# Reader ------------------------------------------------------------------------------------------

def reader_scenario(name, kind, n, fifo_depth, fifo_buffered, seed, cmd_busy, lat_max,
                    prod_idle, cons_stall, long_stall_at=None, long_stall_len=0):
    prng  = random.Random(seed)
    width = 32
    if kind == "native":
        port = LiteDRAMNativePort("read", address_width=24, data_width=width)
        cmd, rdata = port.cmd, port.rdata
    else:
        port = LiteDRAMAXIPort(data_width=width, address_width=24, id_width=1)
        cmd, rdata = port.ar, port.r
    dut = LiteDRAMDMAReader(port, fifo_depth=fifo_depth, fifo_buffered=fifo_buffered)

    addrs = [prng.randrange(2**20) for _ in range(n)]
    lasts = [int(prng.random() < 0.2) for _ in range(n)]
    lasts[-1] = 1

    accepted  = []   # addresses accepted by the memory, in order
    got       = []   # (data, last) delivered on the source
    problems  = []
    state     = dict(cycle=0, done=False)

    def producer():
        idx, driving = 0, False
        while idx < n and state["cycle"] <= 60000:
            if driving and (yield dut.sink.ready):
                idx    += 1
                driving = False
            if idx < n and (driving or prng.randrange(100) >= prod_idle):
                yield dut.sink.valid.eq(1)
                yield dut.sink.address.eq(addrs[idx])
                yield dut.sink.last.eq(lasts[idx])
                driving = True
            else:
                yield dut.sink.valid.eq(0)
            yield
        yield dut.sink.valid.eq(0)

    @passive
    def memory():
        # In-order memory, random command back-pressure, random latency, NO read-data back-pressure
        # (a returned word that is not taken in its cycle is lost -> reported).
        queue = []  # (due_cycle, data)
        while True:
            now = state["cycle"]
            if (yield cmd.valid) and (yield cmd.ready):
                a = (yield cmd.addr)
                accepted.append(a)
                due = now + 1 + prng.randrange(lat_max + 1)
                if queue:
                    due = max(due, queue[-1][0])  # in order (bursty returns allowed)
                queue.append((due, mem_value(a, width)))
            if (yield rdata.valid) and not (yield rdata.ready):
                problems.append("cycle %d: returned word not accepted (overrun)" % now)
            yield cmd.ready.eq(int(prng.randrange(100) >= cmd_busy))
            if queue and queue[0][0] <= now:
                _, d = queue.pop(0)
                yield rdata.valid.eq(1)
                yield rdata.data.eq(d)
            else:
                yield rdata.valid.eq(0)
            state["cycle"] += 1
            yield

    def consumer():
        stall_left = 0
        idle_after = 0
        while idle_after < 200:
            if (yield dut.source.valid) and (yield dut.source.ready):
                got.append(((yield dut.source.data), (yield dut.source.last)))
                if long_stall_at is not None and len(got) == long_stall_at:
                    stall_left = long_stall_len
            if len(got) >= n:
                idle_after += 1   # keep listening: no extra word may show up
            if state["cycle"] > 60000:
                problems.append("timeout")
                break
            if stall_left > 0:
                stall_left -= 1
                yield dut.source.ready.eq(0)
            else:
                yield dut.source.ready.eq(int(prng.randrange(100) >= cons_stall))
            yield

    run_simulation(dut, [producer(), memory(), consumer()])

    exp = [(mem_value(a, width), l) for a, l in zip(addrs, lasts)]
    if accepted != addrs:
        problems.append("commands issued differ from addresses accepted")
    if got != exp:
        problems.append("stream differs: got %d words, expected %d" % (len(got), len(exp)))
    ok = not problems
    print("  reader %-34s %s %s" % (name, "ok" if ok else "FAIL", problems[:3] if problems else ""))
    return ok


# Writer ------------------------------------------------------------------------------------------

def writer_scenario(name, kind, n, fifo_depth, fifo_buffered, seed, cmd_busy, wdata_busy, prod_idle):
    prng  = random.Random(seed)
    width = 32
    if kind == "native":
        port = LiteDRAMNativePort("write", address_width=24, data_width=width)
        cmd, wdata = port.cmd, port.wdata
    else:
        port = LiteDRAMAXIPort(data_width=width, address_width=24, id_width=1)
        cmd, wdata = port.aw, port.w
    dut = LiteDRAMDMAWriter(port, fifo_depth=fifo_depth, fifo_buffered=fifo_buffered)

    pattern = [(prng.randrange(64), prng.randrange(2**width)) for _ in range(n)]  # many duplicates
    cmds, datas, problems = [], [], []
    state = dict(cycle=0)

    def producer():
        idx, driving = 0, False
        while idx < n and state["cycle"] <= 60000:
            if driving and (yield dut.sink.ready):
                idx    += 1
                driving = False
            if idx < n and (driving or prng.randrange(100) >= prod_idle):
                yield dut.sink.valid.eq(1)
                yield dut.sink.address.eq(pattern[idx][0])
                yield dut.sink.data.eq(pattern[idx][1])
                driving = True
            else:
                yield dut.sink.valid.eq(0)
            yield
        yield dut.sink.valid.eq(0)
        # Let everything drain, keep watching for spurious extra writes.
        for _ in range(400):
            yield

    @passive
    def memory():
        # k-th write command is paired with the k-th write data word (port protocol).
        while True:
            if (yield cmd.valid) and (yield cmd.ready):
                if kind == "native" and not (yield cmd.we):
                    problems.append("command without we")
                cmds.append((yield cmd.addr))
            if (yield wdata.valid) and (yield wdata.ready):
                en = (yield wdata.we) if kind == "native" else (yield wdata.strb)
                if en != 2**(width//8) - 1:
                    problems.append("partial byte enables")
                datas.append((yield wdata.data))
                if len(datas) > len(cmds):
                    problems.append("data word ahead of its command")
            yield cmd.ready.eq(int(prng.randrange(100) >= cmd_busy))
            yield wdata.ready.eq(int(prng.randrange(100) >= wdata_busy))
            state["cycle"] += 1
            yield

    run_simulation(dut, [producer(), memory()])

    stored = list(zip(cmds, datas))
    if len(cmds) != len(datas):
        problems.append("%d commands but %d data words" % (len(cmds), len(datas)))
    if stored != pattern:
        problems.append("stored pairs differ from the (address, data) pairs accepted")
    ok = not problems
    print("  writer %-34s %s %s" % (name, "ok" if ok else "FAIL", problems[:3] if problems else ""))
    return ok


def main():
    ok = True
    r = reader_scenario
    ok &= r("native d16 mild",            "native", 300, 16, False, 1, 20, 6,  20, 30)
    ok &= r("native d16 consumer stalled", "native", 300, 16, False, 2,  0, 2,   0, 90, 40, 700)
    ok &= r("native d1 (minimal)",         "native", 150,  1, False, 3, 30, 5,  10, 50, 20, 300)
    ok &= r("native d2",                   "native", 200,  2, False, 4, 10, 9,  10, 60)
    ok &= r("native d8 buffered",          "native", 300,  8, True,  5,  0, 12,  0, 70, 100, 500)
    ok &= r("native d4 slow memory",       "native", 200,  4, False, 6, 80, 30, 50,  0)
    ok &= r("axi d16",                     "axi",    300, 16, False, 7, 20, 6,  20, 50, 33, 400)
    ok &= r("axi d1 (minimal)",            "axi",    120,  1, False, 8, 10, 3,   0, 40)
    ok &= r("axi d4 buffered",             "axi",    200,  4, True,  9,  0, 8,   0, 80)
    w = writer_scenario
    ok &= w("native d16",                  "native", 300, 16, False, 11, 30, 40, 20)
    ok &= w("native d1 (minimal)",         "native", 150,  1, False, 12, 50, 50,  0)
    ok &= w("native d4 buffered slow data","native", 200,  4, True,  13,  0, 90,  0)
    ok &= w("axi d16",                     "axi",    300, 16, False, 14, 20, 60, 30)
    ok &= w("axi d2",                      "axi",    150,  2, False, 15, 70, 10,  0)
    print("PASS" if ok else "FAIL")
    sys.exit(0 if ok else 1)


if __name__ == "__main__":
    main()
